/* ThreadSanitizer's _exit interceptor flushes stdio; lbzip2's failing thread
   dies while holding flockfile(stderr) (by design: nothing may print after the
   fatal message), so every error-path run would hang in the TSan runtime.  The
   real _exit does not flush.  Linked only into the TSan build made by /verif. */
#include <sys/syscall.h>
#include <unistd.h>
void _exit(int status)
{
  for (;;)
    syscall(SYS_exit_group, status);
}
