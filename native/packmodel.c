/* packmodel -- executable form of the block packing rule (property C04).
 *
 * usage: packmodel CAP CHUNK < input
 * The input is cut into consecutive CHUNK-byte pieces (CHUNK = 0: one piece);
 * each piece is packed on its own: a block is the longest prefix of what remains
 * whose run-length-encoded cost is <= CAP, where maximal runs are cut greedily
 * from the block start into pieces of at most 259 bytes and a piece of length L
 * costs L if L < 4 and 5 otherwise.
 * Output: one line per block: "<input bytes taken> <RLE'd size> <block CRC>".
 */
#include <stdint.h>
#include <stdio.h>
#include <stdlib.h>

static uint32_t tab[256];

int main(int argc, char **argv)
{
  size_t cap, chunk, n = 0, room = 1 << 20, pos = 0;
  uint8_t *in = malloc(room);
  int c;
  unsigned i, j;

  if (argc < 3) return 2;
  cap = strtoul(argv[1], NULL, 10);
  chunk = strtoul(argv[2], NULL, 10);
  for (i = 0; i < 256; i++) {
    uint32_t v = (uint32_t)i << 24;
    for (j = 0; j < 8; j++) v = (v & 0x80000000u) ? (v << 1) ^ 0x04c11db7u : v << 1;
    tab[i] = v;
  }
  while ((c = getchar()) != EOF) {
    if (n == room) { room *= 2; in = realloc(in, room); if (!in) return 2; }
    in[n++] = (uint8_t)c;
  }
  while (pos < n) {
    size_t end = chunk ? (pos + chunk < n ? pos + chunk : n) : n;
    while (pos < end) {
      size_t i0 = pos, start = pos, cost = 0, size = 0;
      uint32_t crc = 0xffffffffu;
      while (pos < end && cost < cap) {
        size_t r = 1, k;
        while (pos + r < end && in[pos + r] == in[pos] && r < 259) r++;
        if (r < 4) {
          k = r < cap - cost ? r : cap - cost;
          cost += k; size += k; pos += k;
          if (k < r) break;
        } else if (cap - cost >= 5) {
          cost += 5; size += 5; pos += r;
        } else {
          k = cap - cost < 3 ? cap - cost : 3;
          cost += k; size += k; pos += k;
          break;
        }
      }
      for (; i0 < pos; i0++) crc = (crc << 8) ^ tab[(crc >> 24) ^ in[i0]];
      printf("%zu %zu %lu\n", pos - start, size, (unsigned long)(~crc & 0xffffffffu));
    }
  }
  return 0;
}
