/* codec_h -- in-process harness around lbzip2's codec functions.
 *
 * Drives the real collect()/encode()/transmit() and feeds the bytes straight
 * into the real retrieve()/decode()/emit().  Oracles:
 *   - packing model (C04): a block is the longest prefix of the remaining input
 *     whose run-length-encoded cost fits the capacity (see model_block()).
 *   - round trip (C01): emitted bytes == consumed input, CRCs agree.
 *   - resumption (C09): retrieve() fed one 32-bit word at a time and emit()
 *     with tiny output buffers give the same result as one-shot calls.
 * Sanitizers (C08) watch when built with them.
 *
 * usage: codec_h exh  ALPHA MAXLEN MAXCAP
 *        codec_h rnd  NCASES SEED MAXCAP RESUME(0/1)
 *        codec_h one  CAP SPLITSPEC < input      (replay)
 */
#include "encode.c"             /* from /repo/src (needs struct encoder_state) */
#include "decode.h"
#include <stdio.h>

#include "globals.h"

static void *tt_pool;

void *
xmalloc(size_t n)
{
  void *p;

  /* The 3.6 MB IBWT vector is pooled: decoder_init() allocates one per block,
     which dominates the run time of millions of tiny cases. */
  if (n == MAX_BLOCK_SIZE * sizeof(uint32_t)) {
    if (!tt_pool)
      tt_pool = malloc(n);
    return tt_pool;
  }
  p = malloc(n ? n : 1);
  if (!p)
    abort();
  return p;
}

/* Encoder states are pooled per capacity (exact size, so sanitizer red zones
   still sit right behind each one). */
#define POOLCAP 4096
static void *enc_pool[POOLCAP + 1];

static void *
enc_get(size_t cap)
{
  void *p;

  if (cap <= POOLCAP && enc_pool[cap]) {
    p = enc_pool[cap];
    enc_pool[cap] = NULL;
    return p;
  }
  p = malloc(encoder_alloc_size(cap));
  if (!p)
    abort();
  return p;
}

static void
enc_put(void *p, size_t cap)
{
  if (cap <= POOLCAP && !enc_pool[cap])
    enc_pool[cap] = p;
  else
    free(p);
}

static unsigned long long n_cases, n_blocks, n_collect_calls, n_split_in_run,
  n_resume_points, n_emit_calls, n_mismatch, n_fastpath_blocks;

static uint64_t rng;
static uint32_t
rnd(void)
{
  rng ^= rng << 13;
  rng ^= rng >> 7;
  rng ^= rng << 17;
  return (uint32_t)(rng >> 11);
}

static void
hexdump(const char *tag, const uint8_t *p, size_t n)
{
  size_t i;

  printf("%s ", tag);
  for (i = 0; i < n && i < 4096; i++)
    printf("%02x", p[i]);
  printf("\n");
}

/* Packing model.  in[0..n): remaining input.  Fills out[] with the expected
   run-length-encoded block and returns the number of input bytes taken. */
static size_t
model_block(const uint8_t *in, size_t n, size_t cap, uint8_t *out, size_t *outlen)
{
  size_t i = 0, cost = 0, o = 0;

  while (i < n) {
    size_t r = 1, p, k;

    while (i + r < n && in[i + r] == in[i] && r < 259)
      r++;
    p = r;                      /* piece length, 1..259 */
    if (p < 4) {
      size_t room = cap - cost;

      k = p < room ? p : room;
      memset(out + o, in[i], k);
      o += k;
      cost += k;
      i += k;
      if (k < p)
        break;
    }
    else {
      if (cap - cost >= 5) {
        memset(out + o, in[i], 4);
        o += 4;
        out[o++] = (uint8_t)(p - 4);
        cost += 5;
        i += p;
      }
      else {
        size_t room = cap - cost;

        k = room < 3 ? room : 3;
        memset(out + o, in[i], k);
        o += k;
        cost += k;
        i += k;
        break;
      }
    }
    if (cost >= cap)
      break;
  }
  *outlen = o;
  return i;
}

static uint32_t
crc_bytes(const uint8_t *p, size_t n)
{
  uint32_t crc = 0xffffffffu;

  while (n--)
    crc = (crc << 8) ^ crc_table[(crc >> 24) ^ *p++];
  return ~crc;
}

static void
report(const char *kind, const uint8_t *in, size_t n, size_t cap,
       const size_t *split, size_t nsplit, size_t at)
{
  size_t i;

  n_mismatch++;
  if (n_mismatch > 20)
    return;
  printf("MISMATCH %s cap=%zu at=%zu n=%zu split=", kind, cap, at, n);
  for (i = 0; i < nsplit; i++)
    printf("%s%zu", i ? "," : "", split[i]);
  printf("\n");
  hexdump("INPUT", in, n);
}

struct dec_result {
  int rv;
  uint8_t *out;
  size_t outlen;
  uint32_t crc;
  long endbits;
};

/* Decode the transmitted block in buf (nwords words).  step: 0 = one shot,
   k>0 = make k more words available each time retrieve() asks for MORE.
   ospace: output buffer size handed to emit() per call. */
static struct dec_result
decode_block(const uint32_t *buf, size_t nwords, size_t step, size_t ospace,
             size_t expect)
{
  struct decoder_state ds;
  struct bitstream bs;
  struct dec_result r;
  int rv;
  size_t cap = expect + 16;

  if (ospace > expect + 8)
    ospace = expect + 8;
  r.out = malloc(cap + ospace + 1);
  r.outlen = 0;
  r.crc = 0;
  r.endbits = -1;
  decoder_init(&ds);
  bs.block = NULL;
  bs.eof = false;
  bs.buff = (uint64_t)ntohl(buf[2]) << 48;
  bs.live = 16;
  bs.data = buf + 3;
  nwords += 3;                  /* trailing words stand for the stream trailer */
  bs.limit = step ? buf + 3 : buf + nwords;
  if (!step && (size_t)(bs.limit - bs.data) >= 32)
    n_fastpath_blocks++;
  for (;;) {
    rv = retrieve(&ds, &bs);
    if (bs.data > bs.limit) {
      printf("MISMATCH resume-overread words=%ld\n", (long)(bs.data - bs.limit));
      n_mismatch++;
      rv = ERR_EOF;
      break;
    }
    if (rv != MORE)
      break;
    n_resume_points++;
    if (bs.limit == buf + nwords) {
      bs.eof = true;            /* ran out: must not happen for a valid block */
      rv = retrieve(&ds, &bs);
      break;
    }
    bs.limit += step;
    if (bs.limit > buf + nwords)
      bs.limit = buf + nwords;
  }
  r.rv = rv;
  if (rv == OK) {
    r.endbits = (long)(bs.data - buf) * 32 - (long)bs.live;
    decode(&ds);
    for (;;) {
      size_t sz = ospace;

      if (r.outlen + ospace > cap) {
        cap = cap * 2 + ospace;
        r.out = realloc(r.out, cap + 1);
      }
      rv = emit(&ds, r.out + r.outlen, &sz);
      n_emit_calls++;
      r.outlen += ospace - sz;
      if (rv != MORE)
        break;
    }
    r.rv = rv;
    r.crc = ds.crc;
  }
  else
    free(ds.internal_state);    /* tt is pooled, see xmalloc() */
  return r;
}

/* Run one case: input in[0..n), capacity cap, the input is offered to
   collect() in pieces whose sizes cycle through split[0..nsplit).  */
static void
run_case(const uint8_t *in, size_t n, size_t cap, const size_t *split,
         size_t nsplit, int resume)
{
  size_t pos = 0, si = 0;
  static uint8_t model_out[4096 + 16];
  uint8_t *mo = model_out;

  n_cases++;
  if (cap + 16 > sizeof model_out)
    mo = malloc(cap + 16);

  while (pos < n) {
    struct encoder_state *enc = enc_get(cap);
    size_t taken_model, molen, start = pos, size;
    uint32_t crc;
    int full = 0;
    uint32_t *tbuf;
    uint8_t *block;

    encoder_init(enc, cap, CLUSTER_FACTOR);
    taken_model = model_block(in + pos, n - pos, cap, mo, &molen);

    while (!full && pos < n) {
      size_t piece = split[si % nsplit], sz;

      si++;
      if (piece > n - pos)
        piece = n - pos;
      sz = piece;
      if (piece > 0 && pos > start && in[pos] == in[pos - 1])
        n_split_in_run++;
      full = collect(enc, in + pos, &sz);
      n_collect_calls++;
      pos += piece - sz;
      if (!full && sz != 0) {
        report("collect-left-input-without-full", in, n, cap, split, nsplit, pos);
        enc_put(enc, cap);
        goto out;
      }
    }
    n_blocks++;
    if (pos - start != taken_model) {
      report("consumed", in, n, cap, split, nsplit, start);
      printf("  real=%zu model=%zu\n", pos - start, taken_model);
      enc_put(enc, cap);
      goto out;
    }
    size = encode(enc, &crc);
    block = (uint8_t *)(enc->SA + enc->max_block_size + GROUP_SIZE);
    if (enc->nblock != molen || memcmp(block, mo, molen) != 0) {
      report("rle-content", in, n, cap, split, nsplit, start);
      hexdump("  REAL", block, enc->nblock);
      hexdump("  MODEL", mo, molen);
      enc_put(enc, cap);
      goto out;
    }
    if (enc->nblock > cap) {
      report("over-capacity", in, n, cap, split, nsplit, start);
      enc_put(enc, cap);
      goto out;
    }
    if ((crc ^ 0xffffffffu) != crc_bytes(in + start, pos - start)) {
      report("block-crc", in, n, cap, split, nsplit, start);
      enc_put(enc, cap);
      goto out;
    }
    tbuf = xmalloc(((size + 3) / 4 + 5) * sizeof(uint32_t));
    memset(tbuf, 0, ((size + 3) / 4 + 5) * sizeof(uint32_t));
    transmit(enc, tbuf);
    enc_put(enc, cap);
    {
      size_t nwords = (size + 3) / 4;
      struct dec_result a = decode_block(tbuf, nwords, 0, 1 << 20, pos - start);

      if (a.rv != OK || a.outlen != pos - start
          || memcmp(a.out, in + start, a.outlen) != 0
          || a.crc != (crc ^ 0xffffffffu)
          || (ntohl(tbuf[2]) >> 16) != ((crc ^ 0xffffffffu) & 0xffffu)) {
        report("roundtrip", in, n, cap, split, nsplit, start);
        printf("  rv=%d outlen=%zu expect=%zu\n", a.rv, a.outlen, pos - start);
      }
      else if (a.endbits != (long)size * 8) {
        report("end-position", in, n, cap, split, nsplit, start);
        printf("  endbits=%ld size*8=%zu\n", a.endbits, size * 8);
      }
      else if (resume) {
        struct dec_result b = decode_block(tbuf, nwords, 1, 1 + rnd() % 7, pos - start);

        if (b.rv != a.rv || b.outlen != a.outlen || b.crc != a.crc
            || b.endbits != a.endbits || memcmp(a.out, b.out, a.outlen) != 0) {
          report("resume-differs", in, n, cap, split, nsplit, start);
          printf("  oneshot rv=%d len=%zu  resumed rv=%d len=%zu\n", a.rv, a.outlen, b.rv, b.outlen);
        }
        free(b.out);
        if (nwords > 40) {
          struct dec_result c = decode_block(tbuf, nwords, 31 + rnd() % 3, 255 + rnd() % 3, pos - start);

          if (c.rv != a.rv || c.outlen != a.outlen || c.crc != a.crc
              || c.endbits != a.endbits || memcmp(a.out, c.out, a.outlen) != 0)
            report("resume32-differs", in, n, cap, split, nsplit, start);
          free(c.out);
        }
      }
      free(a.out);
    }
    free(tbuf);
  }
out:
  if (mo != model_out)
    free(mo);
}

static void
summary(void)
{
  printf("SUMMARY cases=%llu blocks=%llu collect_calls=%llu split_in_run=%llu "
         "resume_points=%llu emit_calls=%llu fastpath_blocks=%llu mismatches=%llu\n",
         n_cases, n_blocks, n_collect_calls, n_split_in_run, n_resume_points,
         n_emit_calls, n_fastpath_blocks, n_mismatch);
}

#ifdef FUZZ
/* libFuzzer entry: bytes 0-1 capacity, byte 2 number of split sizes, then the
   split sizes, then the input; any oracle mismatch aborts. */
int
LLVMFuzzerTestOneInput(const uint8_t *data, size_t size)
{
  size_t cap, sp[4], nsp, i;
  unsigned long long before = n_mismatch;

  if (size < 8)
    return 0;
  cap = 1 + ((data[0] << 8 | data[1]) % 2000);
  nsp = 1 + data[2] % 4;
  for (i = 0; i < nsp; i++)
    sp[i] = data[3 + i] % 5 == 0 ? data[3 + i] % 3 : 1 + data[3 + i] * 13u;
  {
    size_t tot = 0;
    for (i = 0; i < nsp; i++)
      tot += sp[i];
    if (tot == 0)
      sp[0] = 1;
  }
  rng = 0x12345 + size;
  run_case(data + 7, size - 7, cap, sp, nsp, 1);
  if (n_mismatch != before)
    abort();
  return 0;
}
#else
int
main(int argc, char **argv)
{
  if (argc >= 5 && !strcmp(argv[1], "exh")) {
    unsigned alpha = atoi(argv[2]), maxlen = atoi(argv[3]), maxcap = atoi(argv[4]);
    unsigned len;
    uint8_t in[32];
    unsigned shard = argc >= 7 ? atoi(argv[5]) : 0, nshards = argc >= 7 ? atoi(argv[6]) : 1;

    rng = 88172645463325252ull;
    for (len = 1; len <= maxlen; len++) {
      unsigned long long total = 1, code;
      unsigned i;

      for (i = 0; i < len; i++)
        total *= alpha;
      for (code = 0; code < total; code++) {
        unsigned long long c = code;
        size_t cap;

        if (code % nshards != shard)
          continue;

        for (i = 0; i < len; i++) {
          in[i] = 'a' + c % alpha;
          c /= alpha;
        }
        for (cap = 1; cap <= maxcap; cap++) {
          size_t sp[3];
          size_t cut;

          sp[0] = len;
          run_case(in, len, cap, sp, 1, 0);
          for (cut = 1; cut < len; cut++) {
            sp[0] = cut;
            sp[1] = len;
            run_case(in, len, cap, sp, 2, 0);
          }
          sp[0] = 1;
          run_case(in, len, cap, sp, 1, 0);
          sp[0] = 1 + rnd() % 3;
          sp[1] = rnd() % 3;       /* includes empty buffers */
          sp[2] = 1 + rnd() % 4;
          run_case(in, len, cap, sp, 3, 0);
        }
      }
    }
    summary();
    return 0;
  }
  if (argc >= 6 && !strcmp(argv[1], "rnd")) {
    unsigned long ncases = strtoul(argv[2], NULL, 10), k;
    unsigned maxcap = atoi(argv[4]);
    int resume = atoi(argv[5]);
    static const unsigned runlens[] = { 1, 1, 1, 2, 2, 3, 3, 4, 4, 5, 6, 7, 50, 254, 255,
      256, 257, 258, 259, 260, 261, 262, 263, 264, 300, 517, 518, 519, 520, 521, 777, 1036, 1037 };
    uint8_t *in = malloc(1 << 16);

    rng = strtoull(argv[3], NULL, 10) * 0x9e3779b97f4a7c15ull + 12345;
    if (!rng)
      rng = 1;
    for (k = 0; k < ncases; k++) {
      size_t n = 0, want = 1 + rnd() % (rnd() % 4 ? 600 : 6000);
      unsigned alpha = 1 + rnd() % (rnd() % 3 ? 4 : 200);
      size_t cap, sp[4], nsp, i;
      int style = rnd() % 4;

      while (n < want) {
        uint8_t c = (uint8_t)(rnd() % alpha * 37u + 3u);
        unsigned r = style == 0 ? 1 : runlens[rnd() % (sizeof runlens / sizeof *runlens)];

        if (style == 3 && rnd() % 2)
          r = 1;
        if (n + r > (1 << 16) - 8)
          break;
        memset(in + n, c, r);
        n += r;
      }
      switch (rnd() % 5) {
      case 0: cap = 1 + rnd() % 12; break;
      case 1: cap = 250 + rnd() % 30; break;
      case 2: cap = 1 + rnd() % maxcap; break;
      case 3: cap = n > 8 ? n - 8 + rnd() % 16 : 5; break;
      default: cap = 4 + rnd() % 600; break;
      }
      if (cap > maxcap)
        cap = maxcap;
      if (cap < 1)
        cap = 1;
      nsp = 1 + rnd() % 4;
      for (i = 0; i < nsp; i++)
        sp[i] = rnd() % 5 == 0 ? rnd() % 3 : 1 + rnd() % (rnd() % 2 ? 10 : 3000);
      if (sp[0] == 0 && nsp == 1)
        sp[0] = 1;
      {
        size_t tot = 0;
        for (i = 0; i < nsp; i++)
          tot += sp[i];
        if (tot == 0)
          sp[0] = 1;
      }
      run_case(in, n, cap, sp, nsp, resume);
    }
    summary();
    return 0;
  }
  if (argc >= 4 && !strcmp(argv[1], "one")) {
    static uint8_t in[1 << 20];
    size_t n = fread(in, 1, sizeof in, stdin), sp[16], nsp = 0;
    char *tok = strtok(argv[3], ",");

    while (tok && nsp < 16) {
      sp[nsp++] = strtoul(tok, NULL, 10);
      tok = strtok(NULL, ",");
    }
    rng = 1;
    run_case(in, n, strtoul(argv[2], NULL, 10), sp, nsp, 1);
    summary();
    return 0;
  }
  fprintf(stderr, "usage: codec_h exh|rnd|one ...\n");
  return 2;
}
#endif
