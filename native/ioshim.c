/* ioshim -- LD_PRELOAD fault / signal / short-I/O injector for the /verif monitors.
 *
 * Environment:
 *   IOSHIM_COUNTS=path   mmap'ed array of 16 uint64 call counters (survives _exit/kill)
 *                        index: 0 read 1 write 2 close 3 open 4 unlink 5 fchown 6 fchmod
 *                               7 futimens 8 fired-count
 *   IOSHIM_RULE=kind:n:action:arg    n is 1-based among calls of that kind
 *        action err     arg=errno   fail the call (EPIPE also raises SIGPIPE, EFBIG SIGXFSZ
 *                                   on the calling thread, as the kernel does)
 *        action sigpre  arg=signal  kill(getpid(), sig) just before the real call
 *        action sigpost arg=signal  ... just after the real call
 *   IOSHIM_SHORT=seed    every read/write transfers a seeded fraction (>= 1 byte)
 *   IOSHIM_LOG=path      one line per firing
 * Calls on fd 2 (diagnostics) and on the shim's own descriptors are never counted.
 */
#define _GNU_SOURCE
#include <dlfcn.h>
#include <errno.h>
#include <fcntl.h>
#include <pthread.h>
#include <signal.h>
#include <stdarg.h>
#include <stdint.h>
#include <stdio.h>
#include <stdlib.h>
#include <string.h>
#include <sys/mman.h>
#include <sys/stat.h>
#include <sys/types.h>
#include <unistd.h>

enum { K_READ, K_WRITE, K_CLOSE, K_OPEN, K_UNLINK, K_FCHOWN, K_FCHMOD, K_FUTIMENS, K_FIRED, K_N = 16 };
static const char *kname[] = { "read", "write", "close", "open", "unlink", "fchown", "fchmod", "futimens" };

static uint64_t local_counts[K_N];
static uint64_t *counts = local_counts;
static int rule_kind = -1, rule_action, rule_arg;
static uint64_t rule_n;
static int logfd = -1, countfd = -1;
static int short_on;
static uint64_t short_state;
static int inited;

static ssize_t (*r_read)(int, void *, size_t);
static ssize_t (*r_write)(int, const void *, size_t);
static int (*r_close)(int);
static int (*r_open)(const char *, int, ...);
static int (*r_open64)(const char *, int, ...);
static int (*r_unlink)(const char *);
static int (*r_fchown)(int, uid_t, gid_t);
static int (*r_fchmod)(int, mode_t);
static int (*r_futimens)(int, const struct timespec[2]);

enum { A_ERR = 1, A_SIGPRE, A_SIGPOST };

static void init(void)
{
  const char *s;
  if (inited) return;
  inited = 1;
  r_read = dlsym(RTLD_NEXT, "read");
  r_write = dlsym(RTLD_NEXT, "write");
  r_close = dlsym(RTLD_NEXT, "close");
  r_open = dlsym(RTLD_NEXT, "open");
  r_open64 = dlsym(RTLD_NEXT, "open64");
  r_unlink = dlsym(RTLD_NEXT, "unlink");
  r_fchown = dlsym(RTLD_NEXT, "fchown");
  r_fchmod = dlsym(RTLD_NEXT, "fchmod");
  r_futimens = dlsym(RTLD_NEXT, "futimens");
  s = getenv("IOSHIM_COUNTS");
  if (s) {
    countfd = r_open(s, O_RDWR | O_CREAT, 0600);
    if (countfd >= 0) {
      void *m;
      if (ftruncate(countfd, sizeof local_counts) == 0 &&
          (m = mmap(NULL, sizeof local_counts, PROT_READ | PROT_WRITE, MAP_SHARED, countfd, 0)) != MAP_FAILED)
        counts = m;
    }
  }
  s = getenv("IOSHIM_LOG");
  if (s) logfd = r_open(s, O_WRONLY | O_CREAT | O_APPEND, 0600);
  s = getenv("IOSHIM_SHORT");
  if (s) { short_on = 1; short_state = strtoull(s, NULL, 10) * 2654435761u + 88172645463325252ull; }
  s = getenv("IOSHIM_RULE");
  if (s) {
    char kind[16], act[16];
    unsigned long long n; int arg = 0;
    if (sscanf(s, "%15[a-z]:%llu:%15[a-z]:%d", kind, &n, act, &arg) >= 3) {
      int k;
      for (k = 0; k < 8; k++) if (!strcmp(kind, kname[k])) rule_kind = k;
      rule_n = n; rule_arg = arg;
      rule_action = !strcmp(act, "err") ? A_ERR : !strcmp(act, "sigpre") ? A_SIGPRE : !strcmp(act, "sigpost") ? A_SIGPOST : 0;
    }
  }
}

static void logfire(int kind, uint64_t n)
{
  char buf[96];
  int len = snprintf(buf, sizeof buf, "fired %s %llu action=%d arg=%d\n", kname[kind], (unsigned long long)n, rule_action, rule_arg);
  __atomic_add_fetch(&counts[K_FIRED], 1, __ATOMIC_RELAXED);
  if (logfd >= 0) (void)!r_write(logfd, buf, len);
}

/* returns the action to apply for this call (0 none) */
static int tick(int kind)
{
  uint64_t n = __atomic_add_fetch(&counts[kind], 1, __ATOMIC_RELAXED);
  if (kind == rule_kind && n == rule_n && rule_action) { logfire(kind, n); return rule_action; }
  return 0;
}

static int mine(int fd) { return fd == 2 || (fd >= 0 && (fd == logfd || fd == countfd)); }

static int fail_with(int e)
{
  if (e == EPIPE) pthread_kill(pthread_self(), SIGPIPE);
  if (e == EFBIG) pthread_kill(pthread_self(), SIGXFSZ);
  errno = e;
  return -1;
}

static size_t shorten(size_t n)
{
  uint64_t x;
  if (!short_on || n <= 1) return n;
  x = __atomic_load_n(&short_state, __ATOMIC_RELAXED);
  x ^= x << 13; x ^= x >> 7; x ^= x << 17;
  __atomic_store_n(&short_state, x, __ATOMIC_RELAXED);
  switch (x % 4) {
  case 0: return 1 + x / 7 % n;
  case 1: return 1;
  case 2: return n > 4096 ? 1 + (x / 7) % 4096 : n;
  default: return n;
  }
}

#define PRE(kind) int act_ = tick(kind); if (act_ == A_SIGPRE) kill(getpid(), rule_arg)
#define POST() do { if (act_ == A_SIGPOST) { int e_ = errno; kill(getpid(), rule_arg); errno = e_; } } while (0)

ssize_t read(int fd, void *buf, size_t n)
{
  ssize_t r;
  init();
  if (mine(fd)) return r_read(fd, buf, n);
  { PRE(K_READ);
    if (act_ == A_ERR) return fail_with(rule_arg);
    r = r_read(fd, buf, shorten(n));
    POST(); }
  return r;
}

ssize_t write(int fd, const void *buf, size_t n)
{
  ssize_t r;
  init();
  if (mine(fd)) return r_write(fd, buf, n);
  { PRE(K_WRITE);
    if (act_ == A_ERR) return fail_with(rule_arg);
    r = r_write(fd, buf, shorten(n));
    POST(); }
  return r;
}

int close(int fd)
{
  int r;
  init();
  if (mine(fd)) return r_close(fd);
  { PRE(K_CLOSE);
    if (act_ == A_ERR) { r_close(fd); return fail_with(rule_arg); }
    r = r_close(fd);
    POST(); }
  return r;
}

static int do_open(int (*real)(const char *, int, ...), const char *path, int flags, mode_t mode)
{
  int r;
  init();
  /* only output creation is a fault point: input opens are O_RDONLY */
  if (!(flags & O_CREAT)) return real(path, flags, mode);
  { PRE(K_OPEN);
    if (act_ == A_ERR) return fail_with(rule_arg);
    r = real(path, flags, mode);
    POST(); }
  return r;
}

int open(const char *path, int flags, ...)
{
  mode_t mode = 0;
  if (flags & O_CREAT) { va_list ap; va_start(ap, flags); mode = va_arg(ap, mode_t); va_end(ap); }
  init();
  return do_open(r_open, path, flags, mode);
}

int open64(const char *path, int flags, ...)
{
  mode_t mode = 0;
  if (flags & O_CREAT) { va_list ap; va_start(ap, flags); mode = va_arg(ap, mode_t); va_end(ap); }
  init();
  return do_open(r_open64 ? r_open64 : r_open, path, flags, mode);
}

int unlink(const char *path)
{
  int r;
  init();
  { PRE(K_UNLINK);
    if (act_ == A_ERR) return fail_with(rule_arg);
    r = r_unlink(path);
    POST(); }
  return r;
}

int fchown(int fd, uid_t u, gid_t g)
{
  int r;
  init();
  { PRE(K_FCHOWN);
    if (act_ == A_ERR) return fail_with(rule_arg);
    r = r_fchown(fd, u, g);
    POST(); }
  return r;
}

int fchmod(int fd, mode_t m)
{
  int r;
  init();
  { PRE(K_FCHMOD);
    if (act_ == A_ERR) return fail_with(rule_arg);
    r = r_fchmod(fd, m);
    POST(); }
  return r;
}

int futimens(int fd, const struct timespec ts[2])
{
  int r;
  init();
  { PRE(K_FUTIMENS);
    if (act_ == A_ERR) return fail_with(rule_arg);
    r = r_futimens(fd, ts);
    POST(); }
  return r;
}
