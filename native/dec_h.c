/* dec_h -- in-process harness around lbzip2's decoder functions for
 * sanitizer runs and libFuzzer: parse() -> retrieve() -> decode() -> emit()
 * on arbitrary bytes, with the input made available in steps (so that the
 * MORE / resume paths run) and small output buffers.
 *
 * usage: dec_h FILE...          (each file: one case; prints one line per file)
 *        built with -DFUZZ: libFuzzer entry point only.
 * The first byte of a case selects the input step and the output buffer size.
 */
#include "common.h"
#include "decode.h"
#include <arpa/inet.h>
#include <stdio.h>
#include <string.h>

#include "globals.h"

void *
xmalloc(size_t n)
{
  void *p = malloc(n ? n : 1);
  if (!p)
    abort();
  return p;
}

static unsigned long long sink;

static int
run_case(const uint8_t *data, size_t size)
{
  struct parser_state par;
  struct header hd;
  struct bitstream bs;
  unsigned garbage = 0;
  uint32_t *buf;
  size_t nwords, step, ospace;
  int rv, blocks = 0;
  unsigned ctl;
  static uint8_t out[70000];

  if (size < 5)
    return -1;
  ctl = data[0];
  data++, size--;
  if (memcmp(data, "BZh", 3) != 0 || data[3] < '1' || data[3] > '9')
    return -2;
  step = (ctl & 3) == 0 ? 0 : (ctl & 3) == 1 ? 1 : (ctl & 3) == 2 ? 7 : 33;
  ospace = (ctl >> 2) % 5 == 0 ? 1 : (ctl >> 2) % 5 == 1 ? 3 : (ctl >> 2) % 5 == 2 ? 255 : (ctl >> 2) % 5 == 3 ? 4096 : 65536;

  nwords = (size - 4 + 3) / 4;
  buf = malloc((nwords ? nwords : 1) * 4);
  memset(buf, 0, (nwords ? nwords : 1) * 4);
  memcpy(buf, data + 4, size - 4);

  parser_init(&par, data[3] - '0', 0);
  bs.live = 0;
  bs.buff = 0;
  bs.block = NULL;
  bs.data = buf;
  bs.limit = step ? buf : buf + nwords;
  bs.eof = (bs.limit == buf + nwords);

#define MORE_INPUT() do {                                   \
    bs.limit += step ? step : nwords;                       \
    if (bs.limit >= buf + nwords) { bs.limit = buf + nwords; bs.eof = true; } \
  } while (0)

  for (;;) {
    rv = parse(&par, &hd, &bs, &garbage);
    if (rv == MORE) {
      if (bs.eof)
        break;
      MORE_INPUT();
      continue;
    }
    if (rv != OK)
      break;
    {
      struct decoder_state ds;

      decoder_init(&ds);
      for (;;) {
        rv = retrieve(&ds, &bs);
        if (bs.data > bs.limit) {
          /* the retriever consumed input words that were not made available */
          fprintf(stderr, "runtime error: dec_h: retrieve() read %ld words beyond the input limit\n", (long)(bs.data - bs.limit));
          abort();
        }
        if (rv != MORE)
          break;
        if (bs.eof) {
          rv = ERR_EOF;
          break;
        }
        MORE_INPUT();
      }
      if (rv == OK) {
        decode(&ds);
        for (;;) {
          size_t sz = ospace;

          rv = emit(&ds, out, &sz);
          if (ospace - sz)
            sink += out[0] + out[ospace - sz - 1];
          if (rv != MORE)
            break;
        }
        if (rv == OK && ds.crc != hd.crc)
          rv = ERR_BLKCRC;
        if (rv == OK && ds.block_size > (unsigned)hd.bs100k * 100000u)
          rv = ERR_OVERFLOW;
        blocks++;
      }
      decoder_free(&ds);
      if (rv != OK)
        break;
    }
  }
  free(buf);
  return rv * 1000 + (blocks > 999 ? 999 : blocks);
}

#ifdef FUZZ
int
LLVMFuzzerTestOneInput(const uint8_t *data, size_t size)
{
  run_case(data, size);
  return 0;
}
#else
int
main(int argc, char **argv)
{
  int i;

  for (i = 1; i < argc; i++) {
    FILE *f = fopen(argv[i], "rb");
    static uint8_t in[8 << 20];
    size_t n;

    if (!f)
      continue;
    n = fread(in, 1, sizeof in, f);
    fclose(f);
    printf("R %d %s\n", run_case(in, n), argv[i]);
  }
  printf("SINK %llu\n", sink);
  return 0;
}
#endif
