/* runmon -- tiny launcher used by the /verif monitors.
 *
 * usage: runmon [-0 ARGV0] [-i SIG]... [-f FSIZE_LIMIT] [-r REPORT_FD_OR_PATH] -- PROG ARGS...
 *
 *  -0 NAME   argv[0] of the child
 *  -i SIG    child starts with signal SIG ignored (inherited SIG_IGN)
 *  -f N      RLIMIT_FSIZE = N bytes
 *  -r PATH   write a JSON line {status, signal, utime, stime, maxrss_kb} to PATH
 *
 * The child is fork+exec'ed from this small process so that ru_maxrss is not
 * polluted by a large parent.  runmon exits with the child's status, or kills
 * itself with the child's terminating signal.
 */
#define _GNU_SOURCE
#include <signal.h>
#include <stdio.h>
#include <stdlib.h>
#include <string.h>
#include <sys/resource.h>
#include <sys/time.h>
#include <sys/wait.h>
#include <unistd.h>

int main(int argc, char **argv)
{
  const char *argv0 = NULL, *report = NULL;
  int ign[16], nign = 0, i = 1;
  long long fsize = -1;
  pid_t pid;
  int st;
  struct rusage ru;

  while (i < argc && strcmp(argv[i], "--") != 0) {
    if (!strcmp(argv[i], "-0") && i + 1 < argc) argv0 = argv[++i];
    else if (!strcmp(argv[i], "-i") && i + 1 < argc) { if (nign < 16) ign[nign++] = atoi(argv[++i]); }
    else if (!strcmp(argv[i], "-f") && i + 1 < argc) fsize = atoll(argv[++i]);
    else if (!strcmp(argv[i], "-r") && i + 1 < argc) report = argv[++i];
    else { fprintf(stderr, "runmon: bad option %s\n", argv[i]); return 127; }
    i++;
  }
  if (i >= argc - 1) { fprintf(stderr, "runmon: no program\n"); return 127; }
  i++;
  pid = fork();
  if (pid < 0) { perror("fork"); return 127; }
  if (pid == 0) {
    const char *prog = argv[i];
    int k;
    for (k = 0; k < nign; k++) signal(ign[k], SIG_IGN);
    if (fsize >= 0) { struct rlimit rl; rl.rlim_cur = rl.rlim_max = (rlim_t)fsize; setrlimit(RLIMIT_FSIZE, &rl); }
    if (argv0) argv[i] = (char *)argv0;
    execv(prog, argv + i);
    perror("execv");
    _exit(127);
  }
  /* forward INT/TERM to the child is not wanted: the harness signals the child's pid
     which it learns from the report file's first line */
  if (report) {
    FILE *f = fopen(report, "w");
    if (f) { fprintf(f, "{\"pid\":%d}\n", (int)pid); fclose(f); }
  }
  signal(SIGINT, SIG_IGN); signal(SIGTERM, SIG_IGN); signal(SIGPIPE, SIG_IGN);
  while (wait4(pid, &st, 0, &ru) < 0)
    ;
  if (report) {
    FILE *f = fopen(report, "a");
    if (f) {
      fprintf(f, "{\"exited\":%d,\"status\":%d,\"signal\":%d,\"utime\":%.6f,\"stime\":%.6f,\"maxrss_kb\":%ld}\n",
              WIFEXITED(st) ? 1 : 0, WIFEXITED(st) ? WEXITSTATUS(st) : -1,
              WIFSIGNALED(st) ? WTERMSIG(st) : 0,
              ru.ru_utime.tv_sec + ru.ru_utime.tv_usec / 1e6,
              ru.ru_stime.tv_sec + ru.ru_stime.tv_usec / 1e6, ru.ru_maxrss);
      fclose(f);
    }
  }
  if (WIFSIGNALED(st)) {
    struct rlimit rl = {0, 0};
    setrlimit(RLIMIT_CORE, &rl);
    signal(WTERMSIG(st), SIG_DFL);
    kill(getpid(), WTERMSIG(st));
    pause();
  }
  return WIFEXITED(st) ? WEXITSTATUS(st) : 126;
}
