/* Definitions of the option globals declared in /repo/src/main.h, for the
   in-process harnesses (which do not link main.c).  Weak, so that a harness
   that includes a source file defining one of them still links. */
#include "main.h"
__attribute__((weak)) unsigned num_worker = 1;
__attribute__((weak)) size_t max_mem;
__attribute__((weak)) bool decompress;
__attribute__((weak)) unsigned bs100k = 9;
__attribute__((weak)) bool force;
__attribute__((weak)) bool keep;
__attribute__((weak)) bool verbose;
__attribute__((weak)) bool print_cctrs;
__attribute__((weak)) bool small;
__attribute__((weak)) bool ultra;
__attribute__((weak)) struct filespec ispec;
__attribute__((weak)) struct filespec ospec;
