/* memshim -- LD_PRELOAD malloc accounting: peak live heap bytes.
 * Writes the running peak (decimal, fixed width) at offset 0 of the file named
 * by MEMSHIM_OUT whenever it has grown by >= 64 KiB (lbzip2 leaves via _exit).
 * _exit() is interposed as well: the bytes still allocated at that moment are
 * written as a second line ("retained at exit").
 */
#define _GNU_SOURCE
#include <dlfcn.h>
#include <fcntl.h>
#include <malloc.h>
#include <stdint.h>
#include <stdio.h>
#include <stdlib.h>
#include <string.h>
#include <unistd.h>
#include <sys/syscall.h>

static void *(*real_malloc)(size_t);
static void *(*real_calloc)(size_t, size_t);
static void *(*real_realloc)(void *, size_t);
static void (*real_free)(void *);
static long long live, peak, reported;
static int outfd = -2;
static char boot[65536];
static size_t boot_used;
static int resolving;

static void resolve(void)
{
  resolving = 1;
  real_malloc = dlsym(RTLD_NEXT, "malloc");
  real_calloc = dlsym(RTLD_NEXT, "calloc");
  real_realloc = dlsym(RTLD_NEXT, "realloc");
  real_free = dlsym(RTLD_NEXT, "free");
  resolving = 0;
}

static void report(long long p)
{
  char buf[32];
  int n;
  if (outfd == -2) {
    const char *path = getenv("MEMSHIM_OUT");
    outfd = path ? open(path, O_WRONLY | O_CREAT, 0600) : -1;
  }
  if (outfd < 0) return;
  n = snprintf(buf, sizeof buf, "%020lld\n", p);
  (void)!pwrite(outfd, buf, n, 0);
}

static void account(long long delta)
{
  long long l = __atomic_add_fetch(&live, delta, __ATOMIC_RELAXED);
  long long p = __atomic_load_n(&peak, __ATOMIC_RELAXED);
  while (l > p) {
    if (__atomic_compare_exchange_n(&peak, &p, l, 0, __ATOMIC_RELAXED, __ATOMIC_RELAXED)) {
      long long r = __atomic_load_n(&reported, __ATOMIC_RELAXED);
      if (l - r >= 65536 &&
          __atomic_compare_exchange_n(&reported, &r, l, 0, __ATOMIC_RELAXED, __ATOMIC_RELAXED))
        report(l);
      break;
    }
  }
}

static int is_boot(void *p) { return (char *)p >= boot && (char *)p < boot + sizeof boot; }

void *malloc(size_t n)
{
  void *p;
  if (!real_malloc) {
    if (resolving) { size_t a = (boot_used + 15) & ~(size_t)15; if (a + n > sizeof boot) return NULL; boot_used = a + n; return boot + a; }
    resolve();
  }
  p = real_malloc(n);
  if (p) account((long long)malloc_usable_size(p));
  return p;
}

void *calloc(size_t a, size_t b)
{
  void *p;
  if (!real_calloc) {
    if (resolving) { size_t n = a * b, o = (boot_used + 15) & ~(size_t)15; if (o + n > sizeof boot) return NULL; boot_used = o + n; memset(boot + o, 0, n); return boot + o; }
    resolve();
  }
  p = real_calloc(a, b);
  if (p) account((long long)malloc_usable_size(p));
  return p;
}

void *realloc(void *q, size_t n)
{
  void *p;
  long long old;
  if (!real_realloc) resolve();
  if (q && is_boot(q)) { p = malloc(n); if (p) memcpy(p, q, n); return p; }
  old = q ? (long long)malloc_usable_size(q) : 0;
  p = real_realloc(q, n);
  if (p) account((long long)malloc_usable_size(p) - old);
  else if (n == 0 && q) account(-old);
  return p;
}

void free(void *p)
{
  if (!p || is_boot(p)) return;
  if (!real_free) resolve();
  account(-(long long)malloc_usable_size(p));
  real_free(p);
}

void _exit(int status)
{
  char buf[64];
  int n;
  long long l = __atomic_load_n(&live, __ATOMIC_RELAXED);
  long long p = __atomic_load_n(&peak, __ATOMIC_RELAXED);
  report(p);
  if (outfd >= 0) {
    n = snprintf(buf, sizeof buf, "%020lld\n", l);
    (void)!pwrite(outfd, buf, n, 21);
  }
  syscall(SYS_exit_group, status);
  for (;;)
    ;
}
