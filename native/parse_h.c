/* parse_h -- in-process harness for the block-header scanner (property C14).
 * Includes /repo/src/parse.c to reach scan() and the DFA tables.
 *
 * usage: parse_h tables                 dump mini_dfa and big_dfa
 *        parse_h scan NCASES SEED       seeded scan() calls vs naive bit search
 */
#include "parse.c"
#include <stdio.h>
#include <string.h>

#include "globals.h"
void *xmalloc(size_t n) { void *p = malloc(n ? n : 1); if (!p) abort(); return p; }

static uint64_t rng;
static uint32_t rnd(void) { rng ^= rng << 13; rng ^= rng >> 7; rng ^= rng << 17; return (uint32_t)(rng >> 11); }

#define PAT 0x314159265359ull
#define MAXW 64

static int getbit(const uint32_t *w, long i) { return (ntohl(w[i >> 5]) >> (31 - (i & 31))) & 1; }
static void setbit(uint32_t *w, long i, int b)
{
  uint32_t v = ntohl(w[i >> 5]);
  v = b ? v | (1u << (31 - (i & 31))) : v & ~(1u << (31 - (i & 31)));
  w[i >> 5] = htonl(v);
}

/* is there an occurrence of the pattern starting at bit s (needs 48 bits inside nbits) */
static int occurs(const uint32_t *w, long nbits, long s)
{
  int k;
  if (s < 0 || s + 48 > nbits) return 0;
  for (k = 0; k < 48; k++)
    if (getbit(w, s + k) != (int)((PAT >> (47 - k)) & 1)) return 0;
  return 1;
}

static unsigned long long n_calls, n_hits, n_more, n_bad, n_chained, n_skipcalls, n_truncated_hits;

static void mismatch(const char *why, const uint32_t *w, long nwords, long start, unsigned skip, long got)
{
  long i;
  n_bad++;
  if (n_bad > 10) return;
  printf("MISMATCH %s start=%ld skip=%u got=%ld words=", why, start, skip, got);
  for (i = 0; i < nwords; i++) printf("%08x", (unsigned)ntohl(w[i]));
  printf("\n");
}

/* One call of scan() on words w[0..nwords) with the stream positioned at bit
   `start` (start < 64 bits are pre-loaded in the bit buffer as the real code
   does after a previous call). */
static long do_scan(const uint32_t *w, long nwords, long start, unsigned skip, int *rv_out, long *endpos)
{
  struct bitstream bs;
  long wordpos = (start + 31) / 32;      /* first unread whole word */
  unsigned live = (unsigned)(wordpos * 32 - start);
  int rv;

  bs.block = NULL; bs.eof = false;
  bs.data = w + wordpos; bs.limit = w + nwords;
  bs.live = live;
  bs.buff = live ? ((uint64_t)ntohl(w[wordpos - 1]) << (64 - live)) : 0;
  if (live == 32) bs.buff = (uint64_t)ntohl(w[wordpos - 1]) << 32;
  rv = scan(&bs, skip);
  *rv_out = rv;
  *endpos = (long)(bs.data - w) * 32 - (long)bs.live;
  return *endpos;
}

int main(int argc, char **argv)
{
  if (argc >= 2 && !strcmp(argv[1], "tables")) {
    unsigned s, b;
    for (s = 0; s < sizeof mini_dfa / sizeof mini_dfa[0]; s++)
      printf("MINI %u %u %u\n", s, (unsigned)mini_dfa[s][0], (unsigned)mini_dfa[s][1]);
    for (s = 0; s < sizeof big_dfa / sizeof big_dfa[0]; s++)
      for (b = 0; b < 256; b++)
        printf("BIG %u %u %u\n", s, b, (unsigned)big_dfa[s][b]);
    printf("ACCEPT %u\n", (unsigned)ACCEPT);
    return 0;
  }
  if (argc >= 4 && !strcmp(argv[1], "scan")) {
    unsigned long n = strtoul(argv[2], NULL, 10), c;
    rng = strtoull(argv[3], NULL, 10) * 0x9e3779b97f4a7c15ull + 99;
    for (c = 0; c < n; c++) {
      uint32_t w[MAXW];
      long nwords = 4 + rnd() % (MAXW - 4), nbits = nwords * 32, i, start, first;
      unsigned skip, style = rnd() % 6, nplant, p;
      int rv; long end;

      for (i = 0; i < nwords; i++)
        w[i] = style == 0 ? 0 : style == 1 ? 0xffffffffu : htonl(rnd() << 11 ^ rnd());
      nplant = style == 2 ? 0 : 1 + rnd() % 3;
      for (p = 0; p < nplant; p++) {
        long at = rnd() % (nbits - 48 + 1);
        int k, miss = (rnd() % 4 == 0) ? (int)(rnd() % 48) : -1;   /* near miss: one bit wrong */
        if (p == 1 && rnd() % 2) at = (at % 96);                    /* all offsets relative to word boundaries */
        if (p == 2 && rnd() % 2) {                                   /* overlap with a previous plant / self prefix */
          long prev = rnd() % (nbits - 48 + 1);
          at = prev;
        }
        for (k = 0; k < 48; k++)
          setbit(w, at + k, (int)((PAT >> (47 - k)) & 1) ^ (k == miss));
      }
      start = rnd() % 3 == 0 ? (long)(rnd() % 64) : (long)(rnd() % (nbits - 1));
      if (start > nbits) start = nbits;
      skip = rnd() % 3 == 0 ? rnd() % 201 : 0;
      if (skip) n_skipcalls++;
      do_scan(w, nwords, start, skip, &rv, &end);
      n_calls++;
      /* oracle */
      {
        /* effective earliest start allowed by the skip hint: a hint larger than
           the buffered bits is rounded up to a whole word by scan() */
        long from = start + (long)skip, latest_from;   /* the skip hint may be ignored: hits before it are allowed */
        long live = ((start + 31) / 32) * 32 - start;
        if ((long)skip > live) latest_from = ((start + 31) / 32) * 32 + (((long)skip - live + 31) / 32) * 32;
        else latest_from = from;
        /* first occurrence at or after latest_from */
        first = -1;
        for (i = latest_from; i + 48 <= nbits; i++)
          if (occurs(w, nbits, i)) { first = i; break; }
        if (rv == OK) {
          long s = end - 80;
          n_hits++;
          if (!occurs(w, nbits, s)) mismatch("reported-position-is-not-the-pattern", w, nwords, start, skip, end);
          else if (s < start) mismatch("hit-before-start", w, nwords, start, skip, end);
          else if (first >= 0 && s > first) mismatch("missed-earlier-occurrence", w, nwords, start, skip, end);
          else if (end > nbits) mismatch("position-beyond-input", w, nwords, start, skip, end);
        } else if (rv == MORE) {
          n_more++;
          if (first >= 0 && first + 80 <= nbits) mismatch("missed-occurrence-with-32-following-bits", w, nwords, start, skip, end);
          if (first >= 0 && first + 80 > nbits) n_truncated_hits++;
          if (end != nbits && !(first >= 0)) mismatch("MORE-without-consuming-input", w, nwords, start, skip, end);
        } else
          mismatch("bad-return-value", w, nwords, start, skip, rv);
        /* chained calls with skip 0 enumerate all occurrences outside the consumed 80 bits */
        if (rv == OK && rnd() % 2) {
          long pos = end, expect = -1;
          int rv2; long end2;
          for (i = pos; i + 48 <= nbits; i++)
            if (occurs(w, nbits, i)) { expect = i; break; }
          do_scan(w, nwords, pos, 0, &rv2, &end2);
          n_calls++; n_chained++;
          if (rv2 == OK && (expect < 0 || end2 - 80 != expect)) mismatch("chained-hit-wrong", w, nwords, pos, 0, end2);
          if (rv2 == MORE && expect >= 0 && expect + 80 <= nbits) mismatch("chained-miss", w, nwords, pos, 0, end2);
        }
      }
    }
    printf("SUMMARY calls=%llu hits=%llu more=%llu chained=%llu skipcalls=%llu truncated_hits=%llu mismatches=%llu\n",
           n_calls, n_hits, n_more, n_chained, n_skipcalls, n_truncated_hits, n_bad);
    return 0;
  }
  return 2;
}
