/*
 * refbz -- independent strict bzip2 reference decoder and stream inspector.
 *
 * Written for the /verif runtime monitors.  Shares no code or tables with
 * lbzip2 or minbzcat: bit-serial canonical prefix decoding, textbook inverse
 * BWT, table-free CRC.
 *
 * usage: refbz [--nocrc] [--dump FILE.json] [--out FILE.bin] [--tables] INPUT
 *
 * exit status: 0 VALID, 1 INVALID, 3 EXCEPTION (valid for libbz2, documented
 * lbzip2 exceptions), 2 usage / I/O problem.
 *
 * Strict rules (bzip2 1.0.x): every code-length value, including each
 * intermediate delta step, within 1..20; 2..6 tables; >= 1 selector; selector
 * MTF index < number of tables; no use of a selector beyond the transmitted
 * ones; block size <= level*100000; primary index < block size; block and
 * stream CRCs; trailing data after a complete stream is ignored unless it
 * begins with 'B','Z','h','1'..'9'.
 */
#include <stdint.h>
#include <stdio.h>
#include <stdlib.h>
#include <string.h>

static const uint8_t *in;
static size_t in_len;
static uint64_t bitpos;         /* next bit to read */
static uint64_t bitlen;

static int opt_nocrc, opt_tables, opt_lax;
static unsigned lax_delta, lax_oversize;
static FILE *dump;
static FILE *outf;

static uint32_t crctab[256];

static void
crc_init(void)
{
  unsigned i, j;

  for (i = 0; i < 256; i++) {
    uint32_t c = (uint32_t)i << 24;

    for (j = 0; j < 8; j++)
      c = (c & 0x80000000u) ? (c << 1) ^ 0x04c11db7u : (c << 1);
    crctab[i] = c;
  }
}

struct eof_exc { int dummy; };
static int hit_eof;

static unsigned
getbit(void)
{
  unsigned b;

  if (bitpos >= bitlen) {
    hit_eof = 1;
    return 0;
  }
  b = (in[bitpos >> 3] >> (7 - (bitpos & 7))) & 1;
  bitpos++;
  return b;
}

static uint64_t
getbits(unsigned n)
{
  uint64_t v = 0;

  while (n--)
    v = (v << 1) | getbit();
  return v;
}

/* randomisation table of the bzip2 format */
static const uint16_t rnums[512] = {
  619, 720, 127, 481, 931, 816, 813, 233, 566, 247, 985, 724, 205, 454, 863,
  491, 741, 242, 949, 214, 733, 859, 335, 708, 621, 574, 73, 654, 730, 472,
  419, 436, 278, 496, 867, 210, 399, 680, 480, 51, 878, 465, 811, 169, 869,
  675, 611, 697, 867, 561, 862, 687, 507, 283, 482, 129, 807, 591, 733, 623,
  150, 238, 59, 379, 684, 877, 625, 169, 643, 105, 170, 607, 520, 932, 727,
  476, 693, 425, 174, 647, 73, 122, 335, 530, 442, 853, 695, 249, 445, 515,
  909, 545, 703, 919, 874, 474, 882, 500, 594, 612, 641, 801, 220, 162, 819,
  984, 589, 513, 495, 799, 161, 604, 958, 533, 221, 400, 386, 867, 600, 782,
  382, 596, 414, 171, 516, 375, 682, 485, 911, 276, 98, 553, 163, 354, 666,
  933, 424, 341, 533, 870, 227, 730, 475, 186, 263, 647, 537, 686, 600, 224,
  469, 68, 770, 919, 190, 373, 294, 822, 808, 206, 184, 943, 795, 384, 383,
  461, 404, 758, 839, 887, 715, 67, 618, 276, 204, 918, 873, 777, 604, 560,
  951, 160, 578, 722, 79, 804, 96, 409, 713, 940, 652, 934, 970, 447, 318,
  353, 859, 672, 112, 785, 645, 863, 803, 350, 139, 93, 354, 99, 820, 908,
  609, 772, 154, 274, 580, 184, 79, 626, 630, 742, 653, 282, 762, 623, 680,
  81, 927, 626, 789, 125, 411, 521, 938, 300, 821, 78, 343, 175, 128, 250,
  170, 774, 972, 275, 999, 639, 495, 78, 352, 126, 857, 956, 358, 619, 580,
  124, 737, 594, 701, 612, 669, 112, 134, 694, 363, 992, 809, 743, 168, 974,
  944, 375, 748, 52, 600, 747, 642, 182, 862, 81, 344, 805, 988, 739, 511,
  655, 814, 334, 249, 515, 897, 955, 664, 981, 649, 113, 974, 459, 893, 228,
  433, 837, 553, 268, 926, 240, 102, 654, 459, 51, 686, 754, 806, 760, 493,
  403, 415, 394, 687, 700, 946, 670, 656, 610, 738, 392, 760, 799, 887, 653,
  978, 321, 576, 617, 626, 502, 894, 679, 243, 440, 680, 879, 194, 572, 640,
  724, 926, 56, 204, 700, 707, 151, 457, 449, 797, 195, 791, 558, 945, 679,
  297, 59, 87, 824, 713, 663, 412, 693, 342, 606, 134, 108, 571, 364, 631,
  212, 174, 643, 304, 329, 343, 97, 430, 751, 497, 314, 983, 374, 822, 928,
  140, 206, 73, 263, 980, 736, 876, 478, 430, 305, 170, 514, 364, 692, 829,
  82, 855, 953, 676, 246, 369, 970, 294, 750, 807, 827, 150, 790, 288, 923,
  804, 378, 215, 828, 592, 281, 565, 555, 710, 82, 896, 831, 547, 261, 524,
  462, 293, 465, 502, 56, 661, 821, 976, 991, 658, 869, 905, 758, 745, 193,
  768, 550, 608, 933, 378, 286, 215, 979, 792, 961, 61, 688, 793, 644, 986,
  403, 106, 366, 905, 644, 372, 567, 466, 434, 645, 210, 389, 550, 919, 135,
  780, 773, 635, 389, 707, 100, 626, 958, 165, 504, 920, 176, 193, 713, 857,
  265, 203, 50, 668, 108, 645, 990, 626, 197, 510, 357, 358, 850, 858, 364,
  936, 638
};

#define MAXBLK 900000
#define MAXSEL 32768

static uint8_t *blk;            /* BWT last column */
static uint32_t *tvec;
static uint8_t selector[MAXSEL];

static int verdict_exception;   /* a documented-exception feature was seen */
static char exc_reason[128];
static int first_json_block;
static int first_json_stream;
static int json_state;          /* 0 top, 1 inside blocks[], 2 inside stream{} */

static void
finish(int code, const char *reason, uint64_t at)
{
  if (dump) {
    if (json_state == 1)
      fprintf(dump, "]}");
    else if (json_state == 2)
      fprintf(dump, "}");
    fprintf(dump, "],\n\"verdict\":\"%s\",\"reason\":\"%s\",\"at_bit\":%llu,"
            "\"exception\":\"%s\",\"input_bits\":%llu,\"lax_delta\":%u,"
            "\"lax_oversize\":%u}\n",
            code == 0 ? "VALID" : code == 3 ? "EXCEPTION" : "INVALID",
            reason, (unsigned long long)at, exc_reason,
            (unsigned long long)bitlen, lax_delta, lax_oversize);
    fclose(dump);
  }
  if (outf)
    fclose(outf);
  exit(code);
}

#define INVALID(r) finish(1, (r), bitpos)
#define CHECK_EOF() do { if (hit_eof) finish(1, "truncated", bitpos); } while (0)

static void
note_exception(const char *r)
{
  if (!verdict_exception) {
    verdict_exception = 1;
    snprintf(exc_reason, sizeof exc_reason, "%s", r);
  }
}

struct table {
  uint8_t len[258];
  int start;
  int minval, maxval;           /* extreme values visited by the delta path */
  int kraft;                    /* 0 complete, -1 incomplete, +1 oversubscribed */
  unsigned used_groups;
  uint32_t count[258];
  /* canonical decoding */
  uint32_t first[22];           /* first code of each length */
  uint32_t num[22];
  uint16_t perm[258];
  uint32_t offs[22];
};

static struct table tab[6];

static void
build_canon(struct table *t, unsigned as)
{
  unsigned l, s, k = 0;
  uint64_t code = 0, kr = 0;

  for (l = 0; l < 22; l++)
    t->num[l] = 0;
  for (s = 0; s < as; s++)
    t->num[t->len[s]]++;
  for (l = 1; l <= 20; l++)
    kr += (uint64_t)t->num[l] << (20 - l);
  t->kraft = kr == (1u << 20) ? 0 : kr < (1u << 20) ? -1 : 1;
  for (l = 1; l <= 20; l++) {
    t->first[l] = (uint32_t)code;
    t->offs[l] = k;
    for (s = 0; s < as; s++)
      if (t->len[s] == l)
        t->perm[k++] = s;
    code = (code + t->num[l]) << 1;
  }
}

/* Decode one symbol bit-serially.  Returns -1 if no code matches within 20
   bits (possible only with incomplete tables), -2 ambiguous is impossible
   here: with oversubscribed tables the first match in canonical order wins,
   which is what a canonical decoder does. */
static int
decode_sym(struct table *t)
{
  uint32_t code = 0;
  unsigned l;

  for (l = 1; l <= 20; l++) {
    code = (code << 1) | getbit();
    if (t->num[l] && code >= t->first[l] && code - t->first[l] < t->num[l])
      return t->perm[t->offs[l] + (code - t->first[l])];
  }
  return -1;
}

static void
json_table(struct table *t, unsigned as, int last)
{
  unsigned s;

  fprintf(dump, "{\"start\":%d,\"min\":%d,\"max\":%d,\"kraft\":%d,"
          "\"used\":%u,\"maxlen\":", t->start, t->minval, t->maxval,
          t->kraft, t->used_groups);
  {
    unsigned m = 0;
    for (s = 0; s < as; s++)
      if (t->len[s] > m)
        m = t->len[s];
    fprintf(dump, "%u", m);
  }
  if (opt_tables) {
    fprintf(dump, ",\"len\":[");
    for (s = 0; s < as; s++)
      fprintf(dump, "%s%u", s ? "," : "", t->len[s]);
    fprintf(dump, "],\"cnt\":[");
    for (s = 0; s < as; s++)
      fprintf(dump, "%s%u", s ? "," : "", t->count[s]);
    fprintf(dump, "]");
  }
  fprintf(dump, "}%s", last ? "" : ",");
}

/* Decode one block whose 48-bit magic has been consumed.  Returns block CRC
   (computed).  level = stream level digit. */
static uint32_t
do_block(unsigned level, uint64_t magic_at)
{
  uint64_t crc_at = bitpos;
  uint32_t stored_crc, crc;
  unsigned randbit, orig, nin = 0, as, ntrees, nsel, i, j, t;
  uint8_t seq[256];
  uint8_t mtfsel[6];
  uint32_t nblock = 0, groups_used = 0;
  unsigned cmap_words = 0;
  uint64_t out_bytes = 0;
  int missing_runlen = 0;
  int incomplete_used = 0, oversub_used = 0;

  stored_crc = (uint32_t)getbits(32);
  randbit = getbit();
  orig = (unsigned)getbits(24);
  CHECK_EOF();
  {
    unsigned big = (unsigned)getbits(16);

    for (i = 0; i < 16; i++)
      if (big & (0x8000u >> i)) {
        unsigned small = (unsigned)getbits(16);

        cmap_words++;
        for (j = 0; j < 16; j++)
          if (small & (0x8000u >> j))
            seq[nin++] = 16 * i + j;
      }
  }
  CHECK_EOF();
  if (nin == 0)
    INVALID("empty alphabet");
  as = nin + 2;
  ntrees = (unsigned)getbits(3);
  CHECK_EOF();
  if (ntrees < 2 || ntrees > 6)
    INVALID("bad number of tables");
  nsel = (unsigned)getbits(15);
  CHECK_EOF();
  if (nsel < 1)
    INVALID("no selectors");
  for (i = 0; i < 6; i++)
    mtfsel[i] = i;
  for (i = 0; i < nsel; i++) {
    unsigned k = 0;
    uint8_t v;

    while (getbit()) {
      k++;
      if (k >= ntrees) {
        CHECK_EOF();
        INVALID("bad selector");
      }
    }
    CHECK_EOF();
    v = mtfsel[k];
    for (; k > 0; k--)
      mtfsel[k] = mtfsel[k - 1];
    mtfsel[0] = v;
    selector[i] = v;
  }
  for (t = 0; t < ntrees; t++) {
    int cur = (int)getbits(5);

    tab[t].start = cur;
    tab[t].minval = tab[t].maxval = cur;
    tab[t].used_groups = 0;
    memset(tab[t].count, 0, sizeof tab[t].count);
    for (i = 0; i < as; i++) {
      for (;;) {
        CHECK_EOF();
        if (cur < 1 || cur > 20) {
          if (!opt_lax)
            INVALID("code length out of range");
          lax_delta++;
          if (cur < -60 || cur > 80)
            INVALID("code length out of range");
        }
        if (!getbit()) {
          if (cur < 1 || cur > 20)
            INVALID("code length out of range");
          break;
        }
        cur += getbit() ? -1 : 1;
        if (cur < tab[t].minval)
          tab[t].minval = cur;
        if (cur > tab[t].maxval)
          tab[t].maxval = cur;
      }
      tab[t].len[i] = (uint8_t)cur;
    }
    CHECK_EOF();
    build_canon(&tab[t], as);
  }

  /* MTF / RLE2 decoding */
  {
    uint8_t mtf[256];
    unsigned eob = as - 1;
    uint32_t run = 0;
    unsigned shift = 0;
    uint32_t limit = opt_lax ? MAXBLK : level * 100000u;
    unsigned g = 0, left = 0;
    struct table *T = NULL;

    for (i = 0; i < nin; i++)
      mtf[i] = i;               /* index into seq[] */

    for (;;) {
      int s;

      if (left == 0) {
        if (g >= nsel || g >= 18002)
          INVALID("ran out of selectors");
        T = &tab[selector[g]];
        T->used_groups++;
        if (T->kraft < 0)
          incomplete_used = 1;
        if (T->kraft > 0)
          oversub_used = 1;
        g++;
        left = 50;
      }
      left--;
      s = decode_sym(T);
      CHECK_EOF();
      if (s < 0)
        INVALID("code not in table");
      T->count[s]++;
      if (s <= 1) {
        /* RUNA / RUNB */
        if (shift > 24)
          INVALID("run too long");
        run += (uint32_t)(s + 1) << shift;
        shift++;
        if (run > 2u * 1024 * 1024)
          INVALID("run too long");
        continue;
      }
      if (run) {
        if (nblock + (uint64_t)run > limit)
          INVALID("block overflow");
        memset(blk + nblock, seq[mtf[0]], run);
        nblock += run;
        run = 0;
        shift = 0;
      }
      if ((unsigned)s == eob)
        break;
      {
        unsigned idx = (unsigned)s - 1;
        uint8_t v = mtf[idx];

        memmove(mtf + 1, mtf, idx);
        mtf[0] = v;
        if (nblock + 1u > limit)
          INVALID("block overflow");
        blk[nblock++] = seq[v];
      }
    }
    groups_used = g;
  }

  if (nblock > level * 100000u)
    lax_oversize++;
  if (oversub_used)
    INVALID("oversubscribed table used");
  if (incomplete_used)
    note_exception("incomplete table used");
  if (nblock == 0)
    INVALID("empty block");
  if (orig >= nblock)
    INVALID("primary index out of range");

  /* inverse BWT */
  {
    uint32_t cnt[256], sum = 0, p;
    uint32_t k;
    int rn = 0, rt = 0;
    uint32_t c = 0xffffffffu;
    int prev = -1, same = 0;
    uint32_t left = nblock;
    static uint8_t obuf[65536];
    size_t on = 0;

    memset(cnt, 0, sizeof cnt);
    for (k = 0; k < nblock; k++)
      cnt[blk[k]]++;
    for (k = 0; k < 256; k++) {
      uint32_t n = cnt[k];

      cnt[k] = sum;
      sum += n;
    }
    for (k = 0; k < nblock; k++)
      tvec[cnt[blk[k]]++] = k;
    p = tvec[orig];
    if (randbit) {
      rn = rnums[0] - 2;
      rt = 1;
    }
#define NEXTBYTE(dst) do {                                      \
      uint8_t b_ = blk[p];                                      \
      p = tvec[p];                                              \
      if (randbit) {                                            \
        if (rn == 0) { b_ ^= 1; rn = rnums[rt]; rt = (rt + 1) & 511; } \
        rn--;                                                   \
      }                                                         \
      (dst) = b_;                                               \
      left--;                                                   \
    } while (0)
#define PUT(byte) do {                                          \
      uint8_t o_ = (byte);                                      \
      c = (c << 8) ^ crctab[(c >> 24) ^ o_];                    \
      out_bytes++;                                              \
      if (outf) { obuf[on++] = o_;                              \
        if (on == sizeof obuf) { fwrite(obuf, 1, on, outf); on = 0; } } \
    } while (0)
    while (left > 0) {
      uint8_t b;

      NEXTBYTE(b);
      if (same == 4) {
        /* b is a repeat count */
        unsigned r = b;

        while (r--)
          PUT((uint8_t)prev);
        same = 0;
        prev = -1;
        continue;
      }
      if ((int)b == prev)
        same++;
      else {
        same = 1;
        prev = b;
      }
      PUT(b);
    }
    if (same == 4)
      missing_runlen = 1;
    if (outf && on)
      fwrite(obuf, 1, on, outf);
    crc = ~c;
  }

  if (missing_runlen)
    note_exception("missing run length");

  if (dump) {
    fprintf(dump, "%s{\"magic_at\":%llu,\"crc_at\":%llu,\"end_at\":%llu,"
            "\"stored_crc\":%lu,\"crc\":%lu,\"rand\":%u,\"orig\":%u,"
            "\"nblock\":%lu,\"out\":%llu,\"nin\":%u,\"ntrees\":%u,\"nsel\":%u,"
            "\"groups\":%lu,\"missing_runlen\":%d,\"tables\":[",
            first_json_block ? "" : ",", (unsigned long long)magic_at,
            (unsigned long long)crc_at, (unsigned long long)bitpos,
            (unsigned long)stored_crc, (unsigned long)crc, randbit, orig,
            (unsigned long)nblock, (unsigned long long)out_bytes, nin, ntrees,
            nsel, (unsigned long)groups_used, missing_runlen);
    for (t = 0; t < ntrees; t++)
      json_table(&tab[t], as, t == ntrees - 1);
    fprintf(dump, "]}");
    first_json_block = 0;
  }

  if (!opt_nocrc && crc != stored_crc) {
    bitpos = crc_at;
    INVALID("block crc mismatch");
  }
  return opt_nocrc ? crc : stored_crc;
}

int
main(int argc, char **argv)
{
  const char *inpath = NULL, *dumppath = NULL, *outpath = NULL;
  int i;
  unsigned nstreams = 0;

  for (i = 1; i < argc; i++) {
    if (!strcmp(argv[i], "--nocrc"))
      opt_nocrc = 1;
    else if (!strcmp(argv[i], "--lax"))
      opt_lax = 1;
    else if (!strcmp(argv[i], "--tables"))
      opt_tables = 1;
    else if (!strcmp(argv[i], "--dump") && i + 1 < argc)
      dumppath = argv[++i];
    else if (!strcmp(argv[i], "--out") && i + 1 < argc)
      outpath = argv[++i];
    else
      inpath = argv[i];
  }
  if (!inpath) {
    fprintf(stderr, "usage: refbz [--nocrc] [--tables] [--dump J] [--out B] IN\n");
    return 2;
  }
  {
    FILE *f = fopen(inpath, "rb");
    long n;
    uint8_t *buf;

    if (!f) {
      perror(inpath);
      return 2;
    }
    fseek(f, 0, SEEK_END);
    n = ftell(f);
    fseek(f, 0, SEEK_SET);
    buf = malloc(n + 1);
    if (!buf || fread(buf, 1, n, f) != (size_t)n) {
      fprintf(stderr, "read error\n");
      return 2;
    }
    fclose(f);
    in = buf;
    in_len = n;
    bitlen = (uint64_t)n * 8;
  }
  if (dumppath) {
    dump = fopen(dumppath, "w");
    if (!dump) {
      perror(dumppath);
      return 2;
    }
    fprintf(dump, "{\"streams\":[");
  }
  if (outpath) {
    outf = fopen(outpath, "wb");
    if (!outf) {
      perror(outpath);
      return 2;
    }
  }
  crc_init();
  blk = malloc(MAXBLK + 16);
  tvec = malloc(sizeof(uint32_t) * (MAXBLK + 16));
  if (!blk || !tvec)
    return 2;
  first_json_stream = 1;

  for (;;) {
    size_t byte = (size_t)(bitpos >> 3);
    unsigned level;
    uint32_t combined = 0;
    unsigned nblocks = 0;
    uint64_t hdr_at = bitpos;

    /* stream header (byte aligned here) */
    if (in_len - byte < 4 || in[byte] != 'B' || in[byte + 1] != 'Z'
        || in[byte + 2] != 'h' || in[byte + 3] < '1' || in[byte + 3] > '9') {
      if (nstreams == 0)
        finish(1, in_len == 0 ? "empty input" : "bad stream magic", bitpos);
      /* trailing data that is not a full header: ignored */
      if (dump)
        fprintf(dump, "],\"trailing_bytes\":%lu,\"x\":[",
                (unsigned long)(in_len - byte));
      finish(verdict_exception ? 3 : 0, "ok", bitpos);
    }
    level = in[byte + 3] - '0';
    bitpos += 32;
    nstreams++;
    if (dump) {
      fprintf(dump, "%s{\"hdr_at\":%llu,\"level\":%u,\"blocks\":[",
              first_json_stream ? "" : ",", (unsigned long long)hdr_at, level);
      first_json_stream = 0;
      first_json_block = 1;
      json_state = 1;
    }

    for (;;) {
      uint64_t magic_at = bitpos;
      uint64_t magic = getbits(48);

      if (hit_eof)
        finish(1, "truncated", bitpos);
      if (magic == 0x314159265359ull) {
        uint32_t c;

        c = do_block(level, magic_at);
        combined = ((combined << 1) | (combined >> 31)) ^ c;
        nblocks++;
        continue;
      }
      if (magic == 0x177245385090ull) {
        uint64_t scrc_at = bitpos;
        uint32_t stored = (uint32_t)getbits(32);

        json_state = 2;
        if (dump)
          fprintf(dump, "],\"eos_at\":%llu,\"scrc_at\":%llu,"
                  "\"stored_scrc\":%lu,\"scrc\":%lu,\"nblocks\":%u",
                  (unsigned long long)magic_at, (unsigned long long)scrc_at,
                  (unsigned long)stored, (unsigned long)combined, nblocks);
        if (hit_eof)
          finish(1, "truncated", bitpos);
        if (!opt_nocrc && stored != combined) {
          bitpos = scrc_at;
          finish(1, "stream crc mismatch", bitpos);
        }
        bitpos = (bitpos + 7) & ~(uint64_t)7;
        if (dump)
          fprintf(dump, ",\"end_at\":%llu}", (unsigned long long)bitpos);
        json_state = 0;
        break;
      }
      bitpos = magic_at;
      finish(1, "bad block magic", bitpos);
    }
  }
}
