/* huff_h -- in-process harness for lbzip2's prefix-code construction.
 * Includes /repo/src/encode.c to reach the static assign_codes().
 * usage: huff_h NCASES SEED
 * For every alphabet size 3..258 (cycled) it builds a frequency vector of a
 * seeded shape, calls assign_codes() and prints
 *   T <as> <maxlen> <cost> <kraft_ok> <f0,f1,...> <l0,l1,...>
 * The optimality oracle lives in Python (lib/vf/pm.py). */
#include "encode.c"
#include <stdio.h>
#include "globals.h"

static uint64_t rng;
static uint32_t rnd(void)
{
  rng ^= rng << 13; rng ^= rng >> 7; rng ^= rng << 17;
  return (uint32_t)(rng >> 11);
}

int main(int argc, char **argv)
{
  unsigned long n = argc > 1 ? strtoul(argv[1], NULL, 10) : 100, k;
  rng = (argc > 2 ? strtoull(argv[2], NULL, 10) : 1) * 0x9e3779b97f4a7c15ull + 7;

  for (k = 0; k < n; k++) {
    uint32_t as = 3 + (k + rnd() % 7) % 256;
    uint32_t freq[MAX_ALPHA_SIZE + 1], code[MAX_ALPHA_SIZE + 1];
    uint8_t length[MAX_ALPHA_SIZE + 1];
    uint32_t i, maxlen = 0;
    uint64_t cost = 0, kr = 0;
    unsigned shape = rnd() % 8;
    uint64_t total = 0;

    for (i = 0; i < as; i++) {
      uint32_t f;
      switch (shape) {
      case 0: f = 1; break;
      case 1: f = rnd() % 1000; break;
      case 2: f = i < 30 ? 1u << i : rnd() % 3; break;            /* geometric */
      case 3: {                                                     /* Fibonacci: forces the 20-bit limit */
        static uint32_t fib[40]; unsigned j;
        if (!fib[1]) { fib[0] = fib[1] = 1; for (j = 2; j < 40; j++) fib[j] = fib[j-1] + fib[j-2]; }
        f = i < 28 ? fib[i] : rnd() % 2; break; }
      case 4: f = rnd() % 4 ? 0 : rnd() % 50; break;              /* many zeros */
      case 5: f = i == as / 2 ? 800000 : rnd() % 3; break;         /* one dominant */
      case 6: f = rnd() % 2 ? rnd() % 5 : rnd() % 100000; break;
      default: f = (rnd() % 1000) * (rnd() % 1000) / 1000; break;
      }
      if (total + f > 900000) f = 0;
      total += f;
      freq[i] = f;
    }
    if (shape >= 2 && rnd() % 2) {            /* shuffle so order does not help */
      for (i = as - 1; i > 0; i--) { uint32_t j = rnd() % (i + 1), t = freq[i]; freq[i] = freq[j]; freq[j] = t; }
    }
    memset(length, 0, sizeof length);
    assign_codes(code, length, freq, as);
    for (i = 0; i < as; i++) {
      if (length[i] > maxlen) maxlen = length[i];
      cost += (uint64_t)freq[i] * length[i];
      if (length[i] >= 1 && length[i] <= 20) kr += 1ull << (20 - length[i]); else kr += 1ull << 40;
    }
    printf("T %u %u %llu %d ", as, maxlen, (unsigned long long)cost, kr == (1ull << 20));
    for (i = 0; i < as; i++) printf("%s%u", i ? "," : "", freq[i]);
    printf(" ");
    for (i = 0; i < as; i++) printf("%s%u", i ? "," : "", length[i]);
    printf("\n");
  }
  return 0;
}
