"""Parser and offline checker for the H6 scheduler event trace."""
import hashlib, struct

CODES = ['?', 'RUN_BEGIN', 'RUN_END', 'INPUT', 'TASK', 'COLLECT', 'ENCODED', 'TRANSMIT', 'REORDER', 'WRITE', 'WRITTEN',
         'PARSE', 'SCAN_HIT', 'RETR', 'EMIT', 'BOGUS', 'ADVANCE', 'QSIZE', 'TAKEN', 'MISREC', 'COPY']
C = {n: i for i, n in enumerate(CODES)}
QNAMES = ['?', 'coll_q', 'trans_q', 'reord_q', 'retr_q', 'emit_q', 'unord_q', 'scan_q']
OK, MORE = 0, 1


def parse(path):
    try:
        with open(path, 'rb') as f:
            raw = f.read()
    except FileNotFoundError:
        return []
    raw = raw[:len(raw) - len(raw) % 40]
    ev = []
    for seq, tc, a, b, c in struct.iter_unpack('<5Q', raw):
        ev.append((seq, tc >> 8, tc & 0xff, a, b, c))
    ev.sort()
    return ev


def runs(ev):
    """Split into per-run event lists (RUN_BEGIN .. RUN_END or end of trace)."""
    out = []; cur = None
    for e in ev:
        if e[2] == C['RUN_BEGIN']:
            if cur is not None:
                out.append(cur)
            cur = [e]
        elif cur is not None:
            cur.append(e)
            if e[2] == C['RUN_END']:
                out.append(cur); cur = None
    if cur is not None:
        out.append(cur)
    return out


def signature(ev):
    h = hashlib.sha1()
    for e in ev:
        if e[2] in (C['TASK'], C['REORDER'], C['TRANSMIT'], C['COLLECT'], C['EMIT'], C['RETR'], C['PARSE'], C['SCAN_HIT']):
            h.update(struct.pack('<BQQ', e[2], e[3], e[4] & 0xffffffffffffffff))
    return h.hexdigest()[:16]


def check_run(run):
    """Return (problems, stats) for one run's events.  Judges only capacity,
    conservation, exactly-once, order and end-state facts."""
    problems = []
    stats = {}
    begin = run[0]
    decompress, W, total_out = begin[3], begin[4], begin[5]
    complete = run[-1][2] == C['RUN_END']
    by = {}
    for e in run:
        by.setdefault(e[2], []).append(e)
    stats['events'] = len(run)
    stats['complete'] = complete
    stats['tasks'] = len(by.get(C['TASK'], []))
    total_in = (4 if decompress else 2) * W
    for e in by.get(C['TASK'], []):
        if e[4] > W:
            problems.append('work_units %d > workers %d at task start' % (e[4], W)); break
        if e[5] > total_out:
            problems.append('out_slots %d > total %d at task start' % (e[5], total_out)); break
    for e in by.get(C['QSIZE'], []):
        stats['hw_' + QNAMES[e[3]]] = (e[4], e[5])
        if e[4] > e[5]:
            problems.append('queue %s high-water %d above capacity %d' % (QNAMES[e[3]], e[4], e[5]))
    for e in by.get(C['WRITTEN'], []):
        if e[3] > total_out:
            problems.append('out_slots %d > total %d after write completion' % (e[3], total_out)); break
    reo = by.get(C['REORDER'], [])
    pos = [(e[3], e[4]) for e in reo]
    for i in range(1, len(pos)):
        if not pos[i - 1] < pos[i]:
            problems.append('writer hand-off order broken: %s then %s' % (pos[i - 1], pos[i])); break
    if len(set(pos)) != len(pos):
        problems.append('a position was handed to the writer twice')
    if not decompress:
        if pos and pos[0] != (0, 0):
            problems.append('first block handed to the writer is %s, not (0,0)' % (pos[0],))
        for i in range(len(reo) - 1):
            nxt = (reo[i][5] >> 32, reo[i][5] & 0xffffffff)
            if nxt != pos[i + 1]:
                problems.append('block %s announces successor %s but %s was written next' % (pos[i], nxt, pos[i + 1])); break
        coll = sorted((e[3], e[4]) for e in by.get(C['COLLECT'], []))
        trans = sorted((e[3], e[4]) for e in by.get(C['TRANSMIT'], []))
        if len(set(coll)) != len(coll):
            problems.append('a block position was collected twice')
        if complete:
            if coll != sorted(pos):
                problems.append('collected blocks != blocks handed to the writer (%d vs %d)' % (len(coll), len(pos)))
            if trans != sorted(pos):
                problems.append('transmitted blocks != blocks handed to the writer')
        stats['blocks'] = len(pos)
    else:
        for i in range(len(reo) - 1):
            if reo[i][5] == MORE and pos[i + 1] != (pos[i][0], pos[i][1] + 1):
                problems.append('multi-buffer block %s not contiguous: next hand-off %s' % (pos[i], pos[i + 1])); break
        for e in reo:
            if e[5] not in (OK, MORE) and complete:
                problems.append('block with error status %d handed to writer in a run that completed' % e[5]); break
        em = sorted((e[3], e[4]) for e in by.get(C['EMIT'], []))
        bog = sorted((e[3], e[4]) for e in by.get(C['BOGUS'], []))
        if complete and sorted(pos + bog) != em:
            problems.append('emitted buffers (%d) != handed to writer (%d) + rejected as bogus (%d)' % (len(em), len(pos), len(bog)))
        stats['buffers'] = len(pos)
        stats['bogus'] = len(bog)
        stats['scan_hits_unique'] = sum(1 for e in by.get(C['SCAN_HIT'], []) if e[5] == 0)
        stats['scan_hits_known'] = sum(1 for e in by.get(C['SCAN_HIT'], []) if e[5] == 1)
        stats['misrecognised'] = len(by.get(C['MISREC'], []))
        stats['taken'] = len(by.get(C['TAKEN'], []))
        stats['advanced_over'] = len(by.get(C['ADVANCE'], []))
    # the buffers must reach the writer's FIFO in the order in which their turn was decided: pair every hand-off decision
    # (REORDER) with the next WRITE (= push to the writer's queue, recorded under the writer's own lock) of the same thread
    pend = {}
    pairs = []
    ambiguous = False
    for e in run:
        if e[2] == C['REORDER']:
            if e[1] in pend:
                ambiguous = True        # two decisions without a push in between: not the shape this oracle understands
            pend[e[1]] = e
        elif e[2] == C['WRITE'] and e[1] in pend:
            pairs.append((pend.pop(e[1]), e))
    stats['handoff_push_pairs'] = 0 if ambiguous else len(pairs)
    if not ambiguous:
        pairs.sort(key=lambda pr: pr[0][0])         # in decision order
        for i in range(1, len(pairs)):
            if pairs[i - 1][1][0] > pairs[i][1][0]:
                problems.append('buffer %s was pushed to the writer after its successor %s (decision order %d < %d, push order %d > %d)'
                                % ((pairs[i - 1][0][3], pairs[i - 1][0][4]), (pairs[i][0][3], pairs[i][0][4]),
                                   pairs[i - 1][0][0], pairs[i][0][0], pairs[i - 1][1][0], pairs[i][1][0]))
                break
    nw = len(by.get(C['WRITE'], [])); nwd = len(by.get(C['WRITTEN'], []))
    if complete:
        if nw != len(pos):
            problems.append('%d buffers queued for writing but %d hand-offs' % (nw, len(pos)))
        if nwd != nw:
            problems.append('%d write completions for %d queued buffers' % (nwd, nw))
        end = run[-1]
        if end[3] != total_in or end[4] != total_out or end[5] != W:
            problems.append('end of run: in_slots=%d/%d out_slots=%d/%d work_units=%d/%d' % (end[3], total_in, end[4], total_out, end[5], W))
    elif nwd > nw:
        problems.append('more write completions than queued buffers')
    return problems, stats
