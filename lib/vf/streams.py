"""Shared: compress with the hook build and inspect the stream with refbz."""
import subprocess
from . import core, ora, gen, lbz


def small_inputs(rnd, n):
    """Tiny inputs: single-table blocks, MTF counts around multiples of 50, all
    padding residues."""
    out = []
    for _ in range(n):
        k = rnd.choice([1, 2, 3, 4, 16, 64, 256])
        size = rnd.choice([1, 2, 3, 5, 10, 48, 49, 50, 51, 52, 98, 99, 100, 101, 149, 150, 151, 152, 200, 299, 300,
                           301, 302, 400, 600, 601, 1200, 1201, 2400, 2401, rnd.randint(1, 3000)])
        fam = rnd.choice(['ksym', 'runs', 'text'])
        if fam == 'ksym':
            d = gen.ksym(rnd, size, k)
        elif fam == 'runs':
            d = gen.runs(rnd, size, lens=[1, 2, 3, 4, 5, 7, 20, 260], k=min(k, 8))
        else:
            d = gen.textlike(rnd, size)
        out.append(('small-' + fam, d))
    return out


def compress_cases(ctx, n, nsmall, nbig=0, maxsize=None):
    rnd = ctx.rng('compress-cases')
    cs = []
    for fam, d in small_inputs(rnd, nsmall):
        cs.append(dict(fam=fam, data=d, level=rnd.randint(1, 9), ultra=rnd.random() < 0.3, w=rnd.choice([1, 2, 4])))
    for i in range(n):
        level = rnd.choice([1, 1, 1, 2, 2, 3, 4, 5, 6, 7, 8, 9])
        ms = maxsize or (1200000 if ctx.quick() else 5000000)
        if ctx.quick() and level >= 4:
            ms = min(ms, 2 * level * 100000 + 50000)
        fam, d = gen.pick(rnd, level, maxsize=ms)
        cs.append(dict(fam=fam, data=d, level=level, ultra=rnd.random() < 0.4, w=rnd.choice([1, 2, 3, 4, 8, 16])))
    for i in range(max(30, n // 8)):
        level = rnd.choice([1, 1, 1, 2])
        cs.append(dict(fam='chunk-straddle', data=gen.chunk_straddle(rnd, level), level=level, ultra=rnd.random() < 0.8,
                       w=rnd.choice([1, 2, 4])))
    # plaintexts with a designed BWT: no zero MTF ranks and Fibonacci-like rank skew -> RUNA/RUNB unused and
    # 18-20 bit codes for them; 8 slightly shortened variants each, so that every byte-alignment padding occurs
    params = [(900000, 0.55, 40), (500000, 0.6, 30), (900000, 0.6, 40), (900000, 0.618, 25), (700000, 0.58, 35), (900000, 0.618, 60)]
    for i in range(2 if ctx.quick() else 40):
        nn, ratio, K = params[i % len(params)]
        if i >= len(params):
            nn, ratio, K = rnd.choice([500000, 700000, 900000]), rnd.uniform(0.5, 0.66), rnd.choice([25, 30, 40, 60])
        cs.append(dict(fam='bwt-designed', gen=('bwt', nn, ratio, K, rnd.randrange(1 << 30)), data=None, level=9, ultra=False, w=2))
    for i in range(max(12, n // 15)):
        level = rnd.choice([1, 1, 2, 9])
        size = rnd.choice([8, 24, 40, 1000, 80000, 100000, 150000, 250000, 2 * level * 100000 + 17])
        cs.append(dict(fam='runs4', data=gen.runs4(rnd, min(size, 1500000)), level=level, ultra=rnd.random() < 0.3, w=rnd.choice([1, 2, 4])))
    for i in range(nbig):
        # incompressible level-9 blocks: ~18001 coding groups each
        d = rnd.randbytes(900000 + rnd.choice([0, 1, 50, 100000]))
        cs.append(dict(fam='maxsel', data=d, level=9, ultra=rnd.random() < 0.5, w=rnd.choice([1, 4])))
    for i, c in enumerate(cs):
        c['i'] = i
        c['env'] = lbz.sched_env(rnd) if rnd.random() < 0.5 else {}
    # many equally expensive (but distinct) blocks at level 1: all workers finish their blocks at about the same time, again and again, so whatever orders
    # the hand-over to the writer is raced 24-64 times per run; always under schedule perturbation
    for i in range(max(8, n // 20)):
        nb = rnd.choice([24, 40, 64])
        if i % 2:
            data = rnd.randbytes(100000 * nb)
        else:
            blk = gen.textlike(rnd, 99992)
            data = b''.join(b'%08d' % k + blk for k in range(nb))        # equal cost, distinct content
        c = dict(fam='lockstep-blocks', data=data, level=1, ultra=rnd.random() < 0.3, w=rnd.choice([2, 3, 4, 8]), i=len(cs))
        c['env'] = {'LBZIP2_VERIF_SCHED': '%d:%s' % (rnd.randrange(1, 1 << 30), rnd.choice(['gaps', 'gaps:1', 'gaps:5', 'jitter', 'slowthread']))}
        cs.append(c)
    return cs


def packmodel(data, cap, chunk):
    exe = core.build_native('packmodel')
    p = subprocess.run([exe, str(cap), str(chunk)], input=data, stdout=subprocess.PIPE, timeout=600)
    if p.returncode != 0:
        raise core.HarnessError('packmodel failed')
    return [tuple(int(x) for x in l.split()) for l in p.stdout.decode().split('\n') if l]


def expand_generated(cs):
    """Cases with a deferred generator (expensive inputs are built inside the worker pool)."""
    import random
    out = []
    for c in cs:
        if c.get('gen'):
            _, nn, ratio, K, sd = c['gen']
            for k in range(1):
                c2 = dict(c); c2['trim'] = k
                out.append(c2)
        else:
            out.append(c)
    return out


_gen_cache = {}
_gen_lock = __import__('threading').Lock()


def materialise(c):
    if c.get('data') is None and c.get('gen'):
        import random
        _, nn, ratio, K, sd = c['gen']
        with _gen_lock:
            d = _gen_cache.get(c['gen'])
        if d is None:
            d = gen.bwt_designed(random.Random(sd), nn, ratio, K)
            with _gen_lock:
                _gen_cache[c['gen']] = d
        c['data'] = d[:len(d) - c.get('trim', 0)]
    return c


def compress(ctx, lb, c, tables=False):
    """Run lbzip2 on case c; on success return (Res, refbz info, desc)."""
    materialise(c)
    data = c['data']
    desc = dict(family=c['fam'], size=len(data), level=c['level'], ultra=c['ultra'], workers=c['w'], env=c['env'])
    argv = [lb, '-%d' % c['level'], '-n', str(c['w'])] + (['-u'] if c['ultra'] else [])
    if c.get('feed'):
        desc['stdin_feed'] = c['feed']
    r = core.run(argv, stdin=data, env=c['env'], timeout=300, feed=c.get('feed'))
    files = {'input.bin': data[:4000000]}
    info = dict(desc, argv=argv)
    if lbz.bad_ending(ctx, r, 'compress %s' % desc, files, info, 'compress:'):
        return None
    if r.rc != 0 or r.err:
        ctx.violation('compress:status', 'compression exit=%s stderr=%r on %s' % (r.status, r.err[:200], desc), files, info)
        return None
    verdict, inf, out = ora.refbz(r.out, tables=tables, want_out=False)
    return r, verdict, inf, desc, files, info


def _design(a):
    import random
    n, ratio, K, sd = a
    return gen.bwt_designed(random.Random(sd), n, ratio, K)


def deep_runa_cases(ctx, lb, ndesign):
    """BWT-designed plaintexts tuned (ratio 0.5-0.58, 25-40 ranks, one full level-9 block) so that the FIRST prefix
    table often gives RUNA a code of 18-20 bits; the byte-alignment padding (0-3 dummy delta codes in the first
    table's start value) varies from design to design.  Generated in a process pool (pure Python)."""
    import concurrent.futures as cf
    rnd = ctx.rng('deep-runa')
    params = [(rnd.choice([900000, 900000, 899998, 700000]), rnd.choice([0.5, 0.53, 0.55, 0.55, 0.58]), rnd.choice([25, 25, 40]), rnd.randrange(1 << 30))
              for _ in range(ndesign)]
    with cf.ProcessPoolExecutor(max_workers=core.JOBS) as ex:
        datas = list(ex.map(_design, params))
    ctx.count('bwt_designs_generated', len(datas))
    return [dict(fam='bwt-designed-deep-runa', data=d, level=9, ultra=False, w=1, env={}, i=100000 + i) for i, d in enumerate(datas)]
