"""Corpora of compressed streams for the decompression checks."""
import bz2, glob, os, subprocess
from . import core, gen, ora, bzsynth as bs, defects


def bz01(data, level=9):
    exe = core.build_repo_tool('bz01')
    p = subprocess.run([exe, '-%d' % level], input=data, stdout=subprocess.PIPE, stderr=subprocess.PIPE, timeout=300)
    if p.returncode != 0:
        raise core.HarnessError('bzip2-0.1pl2 failed: %r' % p.stderr[:200])
    return p.stdout


def synth_valid(rnd, opts=None, nstreams=None, trailing=None, maxtries=20):
    """A synthesized stream that the strict reference calls VALID. -> (data, plaintext)"""
    for _ in range(maxtries):
        o = opts if opts is not None else rnd.sample(['deep', 'surplus', 'badunused', 'rand', 'wiggle', 'bigrun', 'maxorig', 'maxlen'],
                                                     rnd.randint(0, 3))
        sts = [bs.rand_stream(rnd, opts=o) for _ in range(nstreams or rnd.randint(1, 3))]
        tr = trailing if trailing is not None else rnd.choice([b'', b'', b'x', b'BZ', b'BZh', b'BZh0', b'\0' * 7, rnd.randbytes(9)])
        if tr[:3] == b'BZh' and len(tr) >= 4 and 0x31 <= tr[3] <= 0x39:
            tr = b''
        data = bs.build(sts, trailing=tr)
        v, info, out = ora.refbz(data)
        if v == 'VALID':
            return data, out, o
    raise core.HarnessError('could not synthesize a valid stream')


def third_party(rnd, maxsize=400000):
    """(name, compressed, plaintext) from libbz2 or bzip2-0.1pl2."""
    level = rnd.randint(1, 9)
    fam, d = gen.pick(rnd, min(level, 3), maxsize=maxsize)
    if rnd.random() < 0.6:
        return 'libbz2-%d-%s' % (level, fam), bz2.compress(d, level), d
    if fam == 'tiny' or not d:
        d = b'x' * 20
    d = d[:200000]
    return 'bz01-%d-%s' % (level, fam), bz01(d, level), d


def repo_valid_files():
    names = ['32767', 'ch255', 'codelen20', 'concat', 'fib', 'gap', 'idx899999', 'incomp-1', 'incomp-2', 'rand', 'repet',
             'trash', 'empty']
    return [os.path.join(core.REPO, 'tests', n + '.bz2') for n in names]


def repo_all_files():
    return sorted(glob.glob(os.path.join(core.REPO, 'tests', '*.bz2')))


def follower_stream(rnd, pre=60000, post=700000):
    """A valid stream whose single block contains, inside its coded data, a
    complete bogus block header followed by bits that keep decoding for as
    long as the outer block lasts.  A speculative retrieve job started there
    follows the sequential decoder across input blocks (regression input for
    finding F2: stale job re-queued behind released input). -> (data, plain)"""
    used = [16 * g + 2 * k for g in range(16) if g != 9 for k in range(8)]
    alpha = len(used) + 2
    lens = [7] * alpha
    for i in range(2, 8):
        lens[i] = 6

    def tbits(l):
        cur = 7; out = ['00111']
        for x in l:
            if x == cur:
                out.append('10110' if cur == 7 else '11100')
            elif x < cur:
                out.append('110'); cur -= 1
            else:
                out.append('100'); cur += 1
        return ''.join(out)
    inner = bs.Block(used, [], [lens, lens], [1, 0] * 9001)
    inner.eob = False
    inner.crc = 0x5a5a5a5a
    inner.orig = 0x050504
    inner.table_bits = [tbits(lens), tbits(lens)]
    bw = bs.BW()
    inner.write(bw)
    while bw.n % 8:
        bw.puts('1' if bw.n % 2 else '0')
    ib = bw.tobytes()
    assert b'\xff' not in ib
    fill = [0x40 | (x << 2) | 2 for x in (0b1011, 0b1101, 0b1110, 0b0111)]
    syms = [rnd.choice(fill) for _ in range(pre)] + list(ib) + [rnd.choice(fill) for _ in range(post)]
    oused = [b for b in range(256) if b not in (7, 11)]
    ng = (len(syms) + 1 + 49) // 50
    outer = bs.Block(oused, syms, [[8] * 256, [8] * 256], [0] * ng)
    outer.orig = rnd.randrange(1, 1000)
    data = bs.build([bs.Stream(9, [outer])])
    v, info, out = ora.refbz(data)
    if v != 'VALID':
        raise core.HarnessError('follower stream not valid: ' + info['reason'])
    return data, out


def concat_levels(rnd, lb=None):
    """Concatenated streams with different levels where a LATER stream has blocks larger than the
    first stream's level allows (e.g. BZh1 then BZh9 with a 300 KB block).  -> (name, data, plain)"""
    parts = []
    plain = b''
    first = rnd.choice([1, 1, 2, 3])
    levels = [first] + [rnd.randint(first + 1, 9) for _ in range(rnd.randint(1, 3))]
    for i, lv in enumerate(levels):
        size = rnd.choice([0, 10, 5000]) if i == 0 and rnd.random() < 0.7 else rnd.choice([first * 100000 + 50000, lv * 100000 - 7, lv * 100000 + 3000])
        d = gen.make(rnd, rnd.choice(['uniform', 'text', 'k4']), size, 1)
        if lb is not None and rnd.random() < 0.5:
            c = core.run([lb, '-%d' % lv, '-n', '2'], stdin=d, timeout=120).out
        else:
            c = bz2.compress(d, lv)
        parts.append(c)
        plain += d
    return 'concat-levels-' + ''.join(str(l) for l in levels), b''.join(parts), plain
