"""Corpora of compressed streams for the decompression checks."""
import bz2, glob, os, subprocess
from . import core, gen, ora, bzsynth as bs, defects


def bz01(data, level=9):
    exe = core.build_repo_tool('bz01')
    p = subprocess.run([exe, '-%d' % level], input=data, stdout=subprocess.PIPE, stderr=subprocess.PIPE, timeout=300)
    if p.returncode != 0:
        raise core.HarnessError('bzip2-0.1pl2 failed: %r' % p.stderr[:200])
    return p.stdout


def synth_valid(rnd, opts=None, nstreams=None, trailing=None, maxtries=20):
    """A synthesized stream that the strict reference calls VALID. -> (data, plaintext)"""
    for _ in range(maxtries):
        o = opts if opts is not None else rnd.sample(['deep', 'surplus', 'badunused', 'rand', 'wiggle', 'bigrun', 'maxorig'],
                                                     rnd.randint(0, 3))
        sts = [bs.rand_stream(rnd, opts=o) for _ in range(nstreams or rnd.randint(1, 3))]
        tr = trailing if trailing is not None else rnd.choice([b'', b'', b'x', b'BZ', b'BZh', b'BZh0', b'\0' * 7, rnd.randbytes(9)])
        if tr[:3] == b'BZh' and len(tr) >= 4 and 0x31 <= tr[3] <= 0x39:
            tr = b''
        data = bs.build(sts, trailing=tr)
        v, info, out = ora.refbz(data)
        if v == 'VALID':
            return data, out, o
    raise core.HarnessError('could not synthesize a valid stream')


def third_party(rnd, maxsize=400000):
    """(name, compressed, plaintext) from libbz2 or bzip2-0.1pl2."""
    level = rnd.randint(1, 9)
    fam, d = gen.pick(rnd, min(level, 3), maxsize=maxsize)
    if rnd.random() < 0.6:
        return 'libbz2-%d-%s' % (level, fam), bz2.compress(d, level), d
    if fam == 'tiny' or not d:
        d = b'x' * 20
    d = d[:200000]
    return 'bz01-%d-%s' % (level, fam), bz01(d, level), d


def repo_valid_files():
    names = ['32767', 'ch255', 'codelen20', 'concat', 'fib', 'gap', 'idx899999', 'incomp-1', 'incomp-2', 'rand', 'repet',
             'trash', 'empty']
    return [os.path.join(core.REPO, 'tests', n + '.bz2') for n in names]


def repo_all_files():
    return sorted(glob.glob(os.path.join(core.REPO, 'tests', '*.bz2')))
