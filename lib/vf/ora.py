"""Oracles: refbz wrapper, libbz2 wrapper with the trailing-data rule, CRC."""
import bz2, json, os, subprocess
from . import core


def refbz(data=None, path=None, nocrc=False, tables=False, want_out=True, lax=False):
    """Run the independent reference decoder.  Returns (verdict, info, out)
    verdict in VALID / INVALID / EXCEPTION."""
    exe = core.build_native('refbz')
    own = False
    if path is None:
        path = core.tmppath('.bz2')
        with open(path, 'wb') as f:
            f.write(data)
        own = True
    dj = core.tmppath('.json')
    ob = core.tmppath('.out') if want_out else None
    cmd = [exe, '--dump', dj]
    if ob:
        cmd += ['--out', ob]
    if nocrc:
        cmd.append('--nocrc')
    if tables:
        cmd.append('--tables')
    if lax:
        cmd.append('--lax')
    cmd.append(path)
    p = subprocess.run(cmd, stdout=subprocess.PIPE, stderr=subprocess.PIPE, timeout=600)
    if p.returncode not in (0, 1, 3):
        raise core.HarnessError('refbz failed rc=%d %s' % (p.returncode, p.stderr[:300]))
    with open(dj) as f:
        info = json.load(f)
    out = None
    if ob:
        with open(ob, 'rb') as f:
            out = f.read()
        os.unlink(ob)
    os.unlink(dj)
    if own:
        os.unlink(path)
    return info['verdict'], info, out


def libbz2(data):
    """Decode with libbz2 stream by stream using the bzip2(1) trailing rule:
    after at least one complete stream, remaining bytes that do not begin with a
    full BZh[1-9] header are ignored.  Returns (ok, out_bytes, reason)."""
    out = []
    pos = 0
    n = 0
    while True:
        rest = data[pos:]
        if n > 0:
            if not (len(rest) >= 4 and rest[:3] == b'BZh' and 0x31 <= rest[3] <= 0x39):
                return True, b''.join(out), 'ok'
        d = bz2.BZ2Decompressor()
        try:
            o = d.decompress(rest)
        except (OSError, ValueError) as e:
            return False, b''.join(out), 'libbz2: %s' % e
        if not d.eof:
            return False, b''.join(out) + o, 'libbz2: truncated'
        out.append(o)
        n += 1
        pos = len(data) - len(d.unused_data)


_crctab = None


def crc32bz(data, crc=0xffffffff):
    global _crctab
    if _crctab is None:
        t = []
        for i in range(256):
            c = i << 24
            for _ in range(8):
                c = ((c << 1) ^ 0x04c11db7) & 0xffffffff if c & 0x80000000 else (c << 1) & 0xffffffff
            t.append(c)
        _crctab = t
    t = _crctab
    for b in data:
        crc = ((crc << 8) & 0xffffffff) ^ t[(crc >> 24) ^ b]
    return crc


_REV8 = bytes(int('{:08b}'.format(i)[::-1], 2) for i in range(256))


def block_crc(data):
    """CRC-32/BZIP2 (MSB first) via zlib's reflected CRC on bit-reversed bytes."""
    import zlib
    r = zlib.crc32(bytes(data).translate(_REV8)) & 0xffffffff
    return int('{:032b}'.format(r)[::-1], 2)


def combine(stream_crc, blk_crc):
    return (((stream_crc << 1) | (stream_crc >> 31)) ^ blk_crc) & 0xffffffff
