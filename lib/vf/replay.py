"""vcheck replay <dir>: show a saved witness and re-run its command if recorded."""
import json, os, sys
from . import core


def main(path):
    info = json.load(open(os.path.join(path, 'info.json')))
    print(json.dumps(info, indent=1)[:4000])
    argv = info.get('argv')
    if not argv:
        return 0
    variant = info.get('variant', 'hook')
    if os.path.basename(argv[0]) == 'lbzip2':
        argv = [core.build_lbzip2(variant)] + argv[1:]
    stdin = None
    for name in ('stdin.bin', 'input.bz2', 'compressed.bz2', 'input.bin'):
        p = os.path.join(path, info.get('stdin_file', name))
        if os.path.exists(p):
            stdin = open(p, 'rb').read(); break
    env = info.get('env') or {}
    r = core.run(argv, stdin=stdin, env=env, timeout=300)
    print('replayed:', ' '.join(argv)); print('status:', r.status, 'stdout bytes:', len(r.out))
    print('stderr:', r.err[:2000].decode(errors='replace'))
    return 0
