"""Scratch-directory helpers and the documented file-operand rules (C17/C18/C22)."""
import bz2, hashlib, os, stat

COMPR_SUFFIXES = ['.bz2', '.tbz2', '.tbz', '.tz2']


def snapshot(d):
    """name -> (kind, content, mode, atime_ns, mtime_ns, nlink) for a flat directory."""
    out = {}
    for n in sorted(os.listdir(d)):
        p = os.path.join(d, n)
        st = os.lstat(p)
        if stat.S_ISLNK(st.st_mode):
            out[n] = ('symlink', os.readlink(p), None, None, None, st.st_nlink)
        elif stat.S_ISDIR(st.st_mode):
            out[n] = ('dir', None, stat.S_IMODE(st.st_mode), None, None, None)
        elif stat.S_ISFIFO(st.st_mode):
            out[n] = ('fifo', None, stat.S_IMODE(st.st_mode), None, None, None)
        else:
            with open(p, 'rb') as f:
                c = f.read()
            try:
                os.utime(p, ns=(st.st_atime_ns, st.st_mtime_ns))     # undo the access-time update of our own read
            except OSError:
                pass
            out[n] = ('file', c, stat.S_IMODE(st.st_mode), st.st_atime_ns, st.st_mtime_ns, st.st_nlink)
    return out


def brief(snap):
    return {n: (v[0], None if v[1] is None else (v[1] if v[0] == 'symlink' else '%d bytes sha1 %s' % (len(v[1]), hashlib.sha1(v[1]).hexdigest()[:10])),
                None if v[2] is None else oct(v[2]), v[4], v[5]) for n, v in snap.items()}


def has_compr_suffix(name):
    return any(name.endswith(s) for s in COMPR_SUFFIXES)


def decompressed_name(name):
    if name.endswith('.bz2'):
        return name[:-4]
    for s in ('.tbz2', '.tbz', '.tz2'):
        if name.endswith(s):
            return name[:-len(s)] + '.tar'
    return name + '.out'


def bz2_ok(data, plain):
    try:
        return bz2.decompress(data) == plain
    except Exception:
        return False


def same_ignoring_atime(a, b):
    """Compare two snapshots; access times are ignored (opening a file may update them)."""
    if set(a) != set(b):
        return False
    return all(a[n][:3] == b[n][:3] and a[n][4:] == b[n][4:] for n in a)


def changed_names(a, b):
    return sorted(n for n in set(a) | set(b) if n not in a or n not in b or a[n][:3] != b[n][:3] or a[n][4:] != b[n][4:])
