"""Independent length-limited optimal prefix code cost (package-merge), plus a
brute-force cross-check used as a self-test."""
import itertools


def pm_cost(weights, L):
    """Minimum of sum(w_i * l_i) over prefix codes with all l_i <= L
    (list-based package-merge / coin collector).  None if 2**L < n."""
    n = len(weights)
    if n == 1:
        return weights[0]
    if (1 << L) < n:
        return None
    leaves = sorted(weights)
    cur = leaves
    for _ in range(L - 1):
        pk = [cur[i] + cur[i + 1] for i in range(0, len(cur) - 1, 2)]
        cur = sorted(leaves + pk)
    return sum(cur[:2 * n - 2])


def brute_cost(weights, L):
    n = len(weights)
    best = None
    for ls in itertools.product(range(1, L + 1), repeat=n):
        if sum(1 << (L - l) for l in ls) == (1 << L):
            c = sum(w * l for w, l in zip(weights, ls))
            if best is None or c < best:
                best = c
    return best


def selftest(rnd, n=150):
    for _ in range(n):
        k = rnd.randint(2, 6)
        L = rnd.randint(max(1, (k - 1).bit_length()), 5)
        w = [rnd.choice([0, 0, 1, 2, 3, 5, 8, 100]) if rnd.random() < 0.5 else rnd.randint(0, 30) for _ in range(k)]
        a, b = pm_cost(w, L), brute_cost(w, L)
        if a != b:
            return 'package-merge oracle disagrees with brute force on %s L=%d: %s vs %s' % (w, L, a, b)
    return None
