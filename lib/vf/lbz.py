"""Helpers shared by the process-level checks."""
import os, re, signal
from . import core

SCHED_MODES = ['jitter', 'straggler', 'slowthread', 'holdblock', 'gaps']


def sched_env(rnd, allow_none=True, straggler_ms=None):
    """A seeded schedule perturbation (H1) as an environment dict."""
    modes = SCHED_MODES + ([None] if allow_none else [])
    m = rnd.choice(modes)
    if m is None:
        return {}
    s = rnd.randrange(1, 1 << 30)
    if m == 'straggler':
        return {'LBZIP2_VERIF_SCHED': '%d:straggler:%d' % (s, straggler_ms or rnd.choice([5, 20, 60]))}
    if m == 'gaps':
        return {'LBZIP2_VERIF_SCHED': '%d:gaps:%d' % (s, rnd.choice([1, 2, 5]))}
    if m == 'holdblock':
        return {'LBZIP2_VERIF_SCHED': '%d:holdblock:%d' % (s, rnd.choice([30, 100, 200]))}
    return {'LBZIP2_VERIF_SCHED': '%d:%s' % (s, m)}


def feed_pattern(rnd):
    k = rnd.random()
    if k < 0.4:
        return None
    if k < 0.6:
        return ([1 << 16], 0)
    if k < 0.8:
        return ([rnd.choice([1, 3, 7, 100, 4095, 4096, 65537, 70000]) for _ in range(5)], 0)
    pat = ([rnd.choice([1000, 30000, 65536, 99999, 100000, 100001]) for _ in range(3)], rnd.choice([0, 0.0005, 0.002]))
    if rnd.random() < 0.5:
        # the producer goes quiet once, somewhere inside the input (long enough for any "input is idle" heuristic)
        pat = pat + ([(rnd.random(), rnd.choice([0.3, 0.45]))],)
    return pat


def bad_ending(ctx, r, what, files=None, info=None, key_prefix=''):
    """Common judgement of abnormal endings.  Returns True if the result must
    not be judged further (violation recorded or inconclusive)."""
    if r.timed_out:
        if r.deadlock:
            ctx.violation(key_prefix + 'deadlock', 'deadlock (no CPU progress, all threads parked): ' + what,
                          files=dict(files or {}, **{'gdb.txt': r.gdb}), info=info)
        else:
            ctx.inconcl('watchdog without deadlock evidence: ' + what)
        return True
    if r.sig == signal.SIGABRT:
        m = re.search(rb': (\w+): Assertion', r.err)
        ctx.violation(key_prefix + 'abort' + (':' + m.group(1).decode() if m else ''), 'SIGABRT (assertion / abort): %s: %s' % (what, r.err[-300:].decode(errors='replace')),
                      files=dict(files or {}, **{'stderr.txt': r.err}), info=info)
        return True
    if r.sig in (signal.SIGSEGV, signal.SIGBUS, signal.SIGILL, signal.SIGFPE):
        ctx.violation(key_prefix + 'crash', 'crashed with signal %d: %s' % (r.sig, what),
                      files=dict(files or {}, **{'stderr.txt': r.err}), info=info)
        return True
    return False
