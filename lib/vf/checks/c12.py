"""C12 No data races between threads."""
import glob, hashlib, os, re, shutil
from .. import core, gen, lbz, dcorpus, ora, bzsynth as bs

LEVEL = 'exploration'


def dedupe_key(report):
    """(outermost frames, stack pair without line numbers)."""
    frames = re.findall(r'#\d+ (\S+) ', report)
    frames = [f for f in frames if not f.startswith('__tsan') and f not in ('<null>',)]
    return ' | '.join(frames[:8])


def one(ctx, lb, c):
    logbase = core.tmppath('.tsan')
    env = dict(c.get('env', {}))
    env['TSAN_OPTIONS'] = 'halt_on_error=0:log_path=%s:second_deadlock_stack=1:report_thread_leaks=0:report_signal_unsafe=0:exitcode=0' % logbase
    cwd = None
    if c.get('files'):
        cwd = core.tmpdir()
        for name, data in c['files'].items():
            with open(os.path.join(cwd, name), 'wb') as f:
                f.write(data)
    r = core.run([lb] + c['args'], stdin=c.get('stdin'), env=env, cwd=cwd, timeout=400, feed=c.get('feed'), drain=c.get('drain'))
    ctx.ev()
    if cwd:
        shutil.rmtree(cwd, ignore_errors=True)
    desc = dict(workload=c['name'], args=c['args'], env=c.get('env', {}), stdin_size=len(c.get('stdin') or b''))
    reports = []
    for p in glob.glob(logbase + '*'):
        with open(p, errors='replace') as f:
            txt = f.read()
        os.unlink(p)
        reports += [x for x in re.split(r'(?m)^=+\n', txt) if 'WARNING: ThreadSanitizer' in x]
    files = {'stdin.bin': (c.get('stdin') or b'')[:2000000]}
    if lbz.bad_ending(ctx, r, 'tsan run %s' % desc, files, dict(desc, variant='tsan', argv=[lb] + c['args'])):
        return
    if c.get('expect_rc') is not None and r.rc != c['expect_rc']:
        ctx.inconcl('unexpected status %s in tsan workload %s: %r' % (r.status, desc, r.err[:200]))
    races = [x for x in reports if 'data race' in x]
    others = [x for x in reports if 'data race' not in x]
    for x in others:
        ctx.count('tsan_non_race_reports:' + (re.search(r'ThreadSanitizer: ([^(\n]*)', x).group(1).strip() if re.search(r'ThreadSanitizer: ([^(\n]*)', x) else '?'))
    for x in races:
        key = dedupe_key(x)
        loc = re.search(r'Location is (.*)', x)
        short = hashlib.sha1(key.encode()).hexdigest()[:10]
        ctx.violation('race:' + '|'.join(key.split(' | ')[:2]), 'ThreadSanitizer data race in workload %s: %s %s' % (c['name'], key[:300], loc.group(1) if loc else ''),
                      dict(files, **{'tsan_report.txt': x}), dict(desc, variant='tsan', argv=['lbzip2'] + c['args'], dedupe=short))
    ctx.count('runs_without_race' if not races else 'runs_with_race')
    ctx.count('workload:' + c['name'])
    ctx.nt((c['name'], tuple(c['args']), repr(sorted(c.get('env', {}).items()))))
    ctx.sample(desc, cap=6)


def run(ctx):
    ctx.rule = ('ThreadSanitizer (gcc -fsanitize=thread, hooks on, _exit shim) over workloads aimed at all shared state: compress default and -u, '
                'decompress valid / with spurious candidates / failing mid-stream (error path from parser, retriever, reorder), -cdf copy, '
                'multi-operand FILE runs, 2-8 workers, seeded schedule perturbation and stdin fragmentation; reports are read from log files and '
                'de-duplicated by stack; non-trivial = distinct (workload, argv, perturbation); thorough adds helgrind')
    q = ctx.quick()
    rnd = ctx.rng('cases')
    lb = core.build_lbzip2('tsan')
    plain_lb = core.build_lbzip2('hook')
    ws = [2, 3, 4, 8]
    texts = [gen.textlike(rnd, 350000), gen.uniform(rnd, 250000), gen.runs(rnd, 400000), gen.make(rnd, 'concat', 500000, 1)]
    comps = [core.run([plain_lb, '-1', '-n', '4'], stdin=t, timeout=120).out for t in texts]
    pieces = [bs.MAGIC_BYTES + rnd.randbytes(6).replace(b'\xff', b'\1') for _ in range(80)]
    flood = bs.build([bs.Stream(9, [bs.plant_block(rnd, pieces, filler=40), bs.rand_block(rnd, 9, nsyms=200)])])
    fol = dcorpus.follower_stream(rnd, 2000, 30000)[0]
    cs = []
    reps = 3 if q else 60
    for rep in range(reps):
        for i, t in enumerate(texts):
            w = rnd.choice(ws)
            cs.append(dict(name='compress', args=['-1', '-n', str(w)], stdin=t, env=lbz.sched_env(rnd), expect_rc=0, feed=lbz.feed_pattern(rnd)))
            cs.append(dict(name='compress-u', args=['-1', '-u', '-n', str(rnd.choice(ws))], stdin=t, env=lbz.sched_env(rnd), expect_rc=0))
            env = lbz.sched_env(rnd)
            if rnd.random() < 0.5:
                env['LBZIP2_VERIF_IN_GRANUL'] = str(rnd.choice([4096, 65536]))
                env['LBZIP2_VERIF_OUT_GRANUL'] = str(rnd.choice([20000, 100000]))
            cs.append(dict(name='decompress', args=['-d', '-n', str(rnd.choice(ws))], stdin=comps[i], env=env, expect_rc=0,
                           drain=rnd.choice([None, (65536, 0.0005)])))
            cut = comps[i][:rnd.randrange(100, len(comps[i]))]
            cs.append(dict(name='decompress-truncated', args=['-d', '-n', str(rnd.choice(ws))], stdin=cut, env=lbz.sched_env(rnd), expect_rc=1))
            bad = bytearray(comps[i]); bad[rnd.randrange(len(bad) // 2, len(bad))] ^= 0x10
            cs.append(dict(name='decompress-corrupt', args=['-d', '-n', str(rnd.choice(ws))], stdin=bytes(bad), env=lbz.sched_env(rnd)))
            cs.append(dict(name='copy-cdf', args=['-cdf', '-n', str(rnd.choice(ws))], stdin=t[:rnd.choice([0, 3, 65540, 131076, 70000, 200000])],
                           env=lbz.sched_env(rnd), expect_rc=0, feed=lbz.feed_pattern(rnd)))
        # valid stream followed by trailing garbage that spans several input blocks, through a pipe that stalls:
        # the reader is inside read() when a worker finishes parsing
        for gran, glen in ((None, 1 << 20), ('4096', 60000), ('65536', 400000)):
            env = lbz.sched_env(rnd)
            if gran:
                env['LBZIP2_VERIF_IN_GRANUL'] = gran
            first = (262144 if not gran else int(gran)) + 1000
            cs.append(dict(name='decompress-trailing-garbage', args=['-d', '-n', str(rnd.choice(ws))],
                           stdin=comps[0][:0] + core.run([plain_lb, '-1'], stdin=texts[0][:3000], timeout=60).out + b'garbage!' * (glen // 8),
                           env=env, expect_rc=0, feed=([first, 1 << 20], rnd.choice([0.05, 0.2]))))
        # inputs that end exactly on an input-block boundary (the reader's last read returns 0 bytes)
        for t in texts[:2]:
            cs.append(dict(name='compress-exact-multiple', args=['-1', '-n', str(rnd.choice(ws))], stdin=t[:rnd.choice([100000, 200000, 300000])],
                           env=lbz.sched_env(rnd), expect_rc=0))
        pad = (-(len(comps[0]) - 4)) % 4096
        cs.append(dict(name='decompress-exact-multiple', args=['-d', '-n', str(rnd.choice(ws))], stdin=comps[0] + b'\0' * pad,
                       env=dict(lbz.sched_env(rnd), LBZIP2_VERIF_IN_GRANUL='4096'), expect_rc=0))
        cs.append(dict(name='decompress-flood', args=['-d', '-n', str(rnd.choice(ws))], stdin=flood,
                       env=dict(lbz.sched_env(rnd), LBZIP2_VERIF_IN_GRANUL=str(rnd.choice([256, 4096]))), expect_rc=0))
        cs.append(dict(name='decompress-follower', args=['-d', '-n', str(rnd.choice(ws))], stdin=fol,
                       env={'LBZIP2_VERIF_SCHED': '%d:straggler:30' % rnd.randrange(1, 1 << 30), 'LBZIP2_VERIF_IN_GRANUL': '4096'}, expect_rc=0))
        cs.append(dict(name='multi-operand-compress', args=['-1', '-k', '-n', str(rnd.choice(ws)), 'a', 'b', 'c', 'd'],
                       files={'a': texts[0][:150000], 'b': b'', 'c': texts[1][:120000], 'd': texts[2][:250000]}, env=lbz.sched_env(rnd), expect_rc=0))
        cs.append(dict(name='multi-operand-decompress', args=['-d', '-k', '-n', str(rnd.choice(ws)), 'a.bz2', 'b.bz2', 'c.bz2'],
                       files={'a.bz2': comps[0], 'b.bz2': comps[1], 'c.bz2': comps[3]}, env=lbz.sched_env(rnd), expect_rc=0))
        cs.append(dict(name='multi-operand-u', args=['-1', '-u', '-k', '-n', str(rnd.choice(ws)), 'a', 'b'],
                       files={'a': texts[3][:260000], 'b': texts[0][:130000]}, env=lbz.sched_env(rnd), expect_rc=0))
    core.pmap(lambda c: one(ctx, lb, c), cs, jobs=8)
    if not q:
        # helgrind as an independent second opinion on a reduced corpus
        hl = core.build_lbzip2('plain')
        def hel(c):
            r = core.run(['valgrind', '--tool=helgrind', '--error-exitcode=0', '-q', hl] + c['args'], stdin=c.get('stdin'), timeout=900)
            ctx.ev()
            races = re.findall(r'Possible data race[^\n]*\n(?:==\d+==[^\n]*\n){1,12}', r.err.decode(errors='replace'))
            for x in races:
                fr = re.findall(r'(?:at|by) 0x[0-9A-F]+: (\w+)', x)
                fr = [f for f in fr if f not in ('mythread_wrapper', 'start_thread', 'clone')]
                if any(f in x for f in ('expand.c', 'compress.c', 'process.c', 'decode.c', 'encode.c', 'main.c', 'signals.c', 'parse.c')):
                    ctx.violation('helgrind-race:' + '|'.join(fr[:2]), 'helgrind: ' + x[:500], {'helgrind.txt': r.err}, dict(argv=c['args']))
            ctx.count('helgrind_runs')
        small = [c for c in cs if c['name'] in ('compress', 'compress-u', 'decompress', 'copy-cdf', 'decompress-truncated') and not c.get('files')][:40]
        for c in small:
            c['stdin'] = (c.get('stdin') or b'')[:120000] if c['name'].startswith('compress') or c['name'] == 'copy-cdf' else c.get('stdin')
        core.pmap(hel, small, jobs=16)
    ctx.assumptions = ['TSan sees only executed paths and intercepted synchronisation; the stderr flockfile is libc-internal',
                       'thread-leak and signal-unsafe reports are not data races and are only counted']
