"""C13 Peak memory is bounded by the worker count."""
import json, os
from .. import core, lbz

LEVEL = 'exploration'
MiB = 1 << 20
# Fixed bounds derived from the slot counts and per-slot sizes (DESIGN 4.C13); not fitted per run.
# The heap bounds are sharp (slot count x slot size + 7%); the RSS bounds allow for allocator
# retention/fragmentation (about 2x the compressor's heap, per-thread arenas), thread stacks and the shim.
BOUNDS = {
    ('decompress', 'heap'): (2 * MiB, 19.5 * MiB),
    ('decompress', 'rss'): (16 * MiB, 30 * MiB),
    ('compress', 'heap'): (3 * MiB, 8.7 * MiB),
    ('compress', 'rss'): (16 * MiB, 16 * MiB),
}


def measure(lb, runmon, memshim, args, stdin_path, throttle, sched=None):
    rep = core.tmppath('.rep')
    mem = core.tmppath('.mem')
    env = {'LD_PRELOAD': memshim, 'MEMSHIM_OUT': mem}
    if sched:
        env['LBZIP2_VERIF_SCHED'] = sched
    argv = [runmon, '-r', rep, '--', lb] + args
    if throttle:
        r = core.run(argv, stdin=stdin_path, env=env, timeout=900, drain=throttle)
    else:
        r = core.run(argv, stdin=stdin_path, env=env, timeout=900, stdout_path='/dev/null')
    heap = rss = retained = None
    try:
        with open(mem) as f:
            lines = f.read().split()
        heap = int(lines[0])
        retained = int(lines[1]) if len(lines) > 1 else None
    except (FileNotFoundError, ValueError, IndexError):
        pass
    try:
        with open(rep) as f:
            lines = f.read().strip().split('\n')
        rss = json.loads(lines[-1])['maxrss_kb'] * 1024
    except Exception:
        pass
    for p in (rep, mem):
        try:
            os.unlink(p)
        except OSError:
            pass
    return r, heap, rss, retained


def run(ctx):
    ctx.rule = ('peak live heap (LD_PRELOAD malloc accounting) and peak RSS (wait4 ru_maxrss via a small launcher) of lbzip2 for inputs of '
                '1x/4x/16x size at 1/2/4/8 workers: incompressible data, zeros, concatenated decompression bombs (47 MB from 40 bytes each); '
                '(a) fast sink: the peak at every size must be under the same fixed linear bound (growth with size would break it at the larger sizes); (b) throttled reader: '
                'every output slot fills, peak must still be under the bound; (c) schedule-perturbed runs (H1 straggler, jitter) and the heap bytes still allocated at _exit: a retained amount that grows from 1x to 4x to 16x input is unbounded memory; non-trivial = distinct (direction, workload, size, workers, sink)')
    q = ctx.quick()
    lb = core.build_lbzip2('hook')
    runmon = core.build_native('runmon')
    memshim = core.build_native('memshim')
    rnd = ctx.rng('data')
    wd = core.tmpdir()
    # inputs
    unit = 4 * MiB if q else 12 * MiB
    mult = [1, 4, 16] if q else [1, 4, 16, 64]
    files = {}
    rand_unit = rnd.randbytes(unit)
    with open(os.path.join(core.REPO, 'tests', 'ch255.bz2'), 'rb') as f:
        bomb = f.read()
    for m in mult:
        if m <= 16:
            p = os.path.join(wd, 'rand%d' % m)
            with open(p, 'wb') as f:
                for _ in range(m):
                    f.write(rand_unit)
            files[('compress', 'incompressible', m)] = p
            pz = os.path.join(wd, 'rand%d.bz2' % m)
            r = core.run([lb, '-9', '-n', '16'], stdin=p, stdout_path=pz, timeout=900)
            if r.rc != 0:
                raise core.HarnessError('cannot prepare compressed input')
            files[('decompress', 'incompressible', m)] = pz
        p = os.path.join(wd, 'zero%d' % m)
        with open(p, 'wb') as f:
            f.write(b'\0' * (unit * m * 2))
        files[('compress', 'zeros', m)] = p
        p = os.path.join(wd, 'bomb%d.bz2' % m)
        with open(p, 'wb') as f:
            f.write(bomb * m)
        files[('decompress', 'bomb', m)] = p
    # many spurious candidates that decode completely and fail only in the run-length emitter:
    # whatever the scheduler does with them, their decoders must be given back
    from .. import bzsynth as bs, defects, ora
    def inner_bytes(k):
        blk = defects.big_run_block(rnd, 5 * k + 4, byte=0)
        blk.crc = 0x31337000 + k
        bw = bs.BW(); blk.write(bw)
        return bw.tobytes()
    for m, ncand in ((1, 40), (4, 160), (16, 640)):
        blocks = []
        left = ncand
        while left > 0:
            pieces = []
            for _ in range(min(left, 20)):
                ib = inner_bytes(rnd.choice([0, 1, 3, 50]))
                if b'\xff' not in ib:
                    pieces.append(ib)
            left -= 20
            if pieces:
                blocks.append(bs.plant_block(rnd, pieces, filler=40))
        data = bs.build([bs.Stream(9, blocks)])
        if ora.refbz(data, want_out=False)[0] == 'VALID':
            p = os.path.join(wd, 'planted%d.bz2' % m)
            with open(p, 'wb') as f:
                f.write(data)
            files[('decompress', 'planted-late-failing-candidates', m)] = p
    for m in mult[:3]:
        p = os.path.join(wd, 'ramp%d' % m)
        total = unit * m
        with open(p, 'wb') as f:
            done = 0
            step = 300000
            while done < total:
                frac = done / total                      # share of incompressible bytes grows along the file
                k = int(step * frac)
                f.write(rnd.randbytes(k) + b'\0' * (step - k))
                done += step
        files[('compress', 'ramp-less-and-less-compressible', m)] = p
    ws = [1, 2, 4, 8]
    table = []
    jobs = []
    for (direction, kind, m), path in sorted(files.items()):
        for w in ws:
            jobs.append((direction, kind, m, w, path, None, None))
    # perturbed schedules (H1): buffers whose release depends on who lets go last
    for (direction, kind, m), path in sorted(files.items()):
        if kind == 'incompressible':
            for w in (2, 4):
                for sched in ('%d:straggler:40' % (ctx.seed * 7 + w), '%d:jitter' % (ctx.seed * 11 + w)):
                    jobs.append((direction, kind, m, w, path, None, sched))
    # saturation runs: throttled reader
    for w in ws:
        jobs.append(('decompress', 'bomb', 4, w, files[('decompress', 'bomb', 4)], (1 << 16, 0.001), None))
        jobs.append(('decompress', 'incompressible', 4, w, files[('decompress', 'incompressible', 4)], (1 << 14, 0.002), None))
        jobs.append(('compress', 'incompressible', 4, w, files[('compress', 'incompressible', 4)], (1 << 12, 0.002), None))

    def one(j):
        direction, kind, m, w, path, throttle, sched = j
        args = (['-d'] if direction == 'decompress' else ['-9']) + ['-n', str(w)]
        r, heap, rss, retained = measure(lb, runmon, memshim, args, path, throttle, sched)
        ctx.ev()
        desc = dict(direction=direction, workload=kind, size_multiple=m, workers=w, throttled=bool(throttle), sched=sched,
                    input_bytes=os.path.getsize(path), peak_heap=heap, peak_rss=rss, retained_at_exit=retained)
        if lbz.bad_ending(ctx, r, 'memory run %s' % desc, None, dict(desc, argv=['lbzip2'] + args)):
            return None
        if r.rc != 0 or heap is None or rss is None:
            ctx.inconcl('measurement failed: %s %s %r' % (desc, r.status, r.err[:200]))
            return None
        for what, val in (('heap', heap), ('rss', rss)):
            c0, c1 = BOUNDS[(direction, what)]
            bound = c0 + c1 * w
            if val > bound:
                ctx.violation('over-bound:%s:%s:%s' % (direction, what, 'throttled' if throttle else 'fast-sink'),
                              'peak %s %.1f MiB exceeds the fixed bound %.1f MiB (= %.1f + %.1f x %d workers): %s'
                              % (what, val / MiB, bound / MiB, c0 / MiB, c1 / MiB, w, desc), None, dict(desc, argv=['lbzip2'] + args))
        ctx.nt((direction, kind, m, w, bool(throttle), sched))
        return desc
    res = [x for x in core.pmap(one, jobs, jobs=4) if x]
    # growth with size: every size, including the largest, must obey the same fixed bound (checked above).
    # The ratio between the two largest sizes is reported, not judged: with a fast sink the peak depends on
    # how many slots the schedule happens to fill, which is not monotone in the input size.
    groups = {}
    for d in res:
        if not d['throttled']:
            groups.setdefault((d['direction'], d['workload'], d['workers'], d['sched'] or ''), []).append(d)
    growth = []
    for key, ds in sorted(groups.items()):
        ds.sort(key=lambda d: d['size_multiple'])
        if len(ds) >= 2:
            growth.append(dict(group=list(key), sizes=[d['size_multiple'] for d in ds],
                               peak_heap_MiB=[round(d['peak_heap'] / MiB, 1) for d in ds]))
    # (c) heap bytes still allocated when the process leaves: an amount that keeps growing with the input size (1x -> 4x -> 16x)
    # is memory that no worker-count bound covers, however small each run's share is
    for key, ds in sorted(groups.items()):
        rs = [(d['size_multiple'], d['retained_at_exit']) for d in ds if d['retained_at_exit'] is not None]
        ctx.count('retained_at_exit_series', 1 if len(rs) >= 3 else 0)
        if len(rs) >= 3:
            ctx.maxmon('max_retained_at_exit_bytes', max(x[1] for x in rs))
            first, mid, last = rs[0][1], rs[len(rs) // 2][1], rs[-1][1]
            if last - first > 512 * 1024 and last > mid >= first:
                ctx.violation('retained-grows:%s:%s' % (key[0], 'perturbed' if key[3] else 'plain'),
                              'heap still allocated at exit grows with the input size: %s bytes at sizes %s (%s %s, %d workers, schedule %s)'
                              % ([x[1] for x in rs], [x[0] for x in rs], key[0], key[1], key[2], key[3] or 'unperturbed'), None,
                              dict(group=list(key), series=rs))
    ctx.extra['peak_heap_by_size'] = growth
    ctx.extra['measurements_MiB'] = [dict(d, peak_heap=round(d['peak_heap'] / MiB, 2), peak_rss=round(d['peak_rss'] / MiB, 2)) for d in res]
    ctx.maxmon('max_peak_heap_MiB', int(max(d['peak_heap'] for d in res) / MiB) if res else 0)
    ctx.maxmon('max_peak_rss_MiB', int(max(d['peak_rss'] for d in res) / MiB) if res else 0)
    for d in res[:4]:
        ctx.sample(d)
    import shutil
    shutil.rmtree(wd, ignore_errors=True)
    ctx.assumptions = ['bounds are fixed constants derived from slot counts x per-slot sizes (DESIGN 4.C13)',
                       'RSS includes allocator overhead, stacks and the preloaded shim']
