"""C18 Multiple operands are processed independently."""
import os, shutil
from .. import core, gen, lbz, fsmodel as fm, dcorpus, bzsynth as bs

LEVEL = 'exploration'


def make_tree(rnd, lb, mode, ultra):
    """-> (dir, operand names, kinds)"""
    d = core.tmpdir()
    names, kinds = [], []
    n = rnd.randint(2, 8)
    for i in range(n):
        kind = rnd.choice(['text', 'random', 'empty', 'multiblock', 'tiny', 'skip-suffix', 'skip-missing', 'skip-dir', 'skip-hardlink',
                           'skip-exists', 'corrupt', 'notbz2', 'trailing-garbage', 'trailing-garbage-big', 'notbz2-big'] if mode == 'decompress' else
                          ['text', 'random', 'empty', 'multiblock', 'tiny', 'runs', 'skip-suffix', 'skip-missing', 'skip-dir', 'skip-hardlink',
                           'skip-exists'])
        if mode == 'decompress' and kind == 'skip-suffix':
            kind = 'text'
        name = 'op%d' % i
        plain = {'text': lambda: gen.textlike(rnd, rnd.choice([100, 40000])), 'random': lambda: rnd.randbytes(rnd.choice([10, 30000])),
                 'empty': lambda: b'', 'multiblock': lambda: gen.textlike(rnd, rnd.choice([150000, 600000])) + rnd.randbytes(120000), 'tiny': lambda: b'x',
                 'runs': lambda: gen.runs(rnd, 250000)}.get(kind, lambda: gen.textlike(rnd, 500))()
        if mode == 'compress':
            content = plain
            if kind == 'skip-suffix':
                name += rnd.choice(['.bz2', '.tbz', '.tz2'])
        else:
            content = core.run([lb, '-1', '-n', '2'] + (['-u'] if ultra else []), stdin=plain, timeout=60).out
            name += rnd.choice(['.bz2', '.bz2', '.tbz', ''])
            if kind == 'corrupt':
                b = bytearray(content); b[len(b) // 2] ^= 0x04; content = bytes(b)
            if kind == 'notbz2':
                content = b'this is not bzip2 data\n' * 10
            if kind == 'notbz2-big':
                content = b'plain, ' + rnd.randbytes(rnd.choice([270000, 600000]))
            if kind == 'trailing-garbage':
                content += b'\0' * rnd.choice([1, 7]) + rnd.randbytes(rnd.choice([1, 100, 5000]))
            if kind == 'trailing-garbage-big':
                # the decoder is done with the operand while the reader still has input blocks to go
                content += b'\xff' + rnd.randbytes(rnd.choice([200000, 300000, 460000, 800000]))
        p = os.path.join(d, name)
        if kind == 'skip-missing':
            pass
        elif kind == 'skip-dir':
            os.mkdir(p)
        else:
            with open(p, 'wb') as f:
                f.write(content)
            os.chmod(p, rnd.choice([0o644, 0o600, 0o755]))
            os.utime(p, ns=(1_500_000_000_000_000_000 + i, 1_400_000_000_000_000_000 + i * 1000))
            if kind == 'skip-hardlink':
                os.link(p, p + '.lnk')
            if kind == 'skip-exists':
                out = name + '.bz2' if mode == 'compress' else fm.decompressed_name(name)
                with open(os.path.join(d, out), 'wb') as f:
                    f.write(b'already here')
        names.append(name); kinds.append(kind)
    return d, names, kinds


def run(ctx):
    ctx.rule = ('random sequences of 2-8 FILE operands (compressible, incompressible, empty, multi-block, tiny, each skip kind; for decompression '
                'also corrupt, non-bzip2 and trailing-garbage operands, small and spanning several input blocks) in both modes incl. -u, with -k/-c/-f variants and 1-4 workers, one sequence in eight with an unwritable standard error (/dev/full): the same scratch tree is '
                'processed once in ONE invocation and once operand by operand; trees (names, contents, modes, mtimes) and, for -c, the '
                'concatenated stdout must be identical; status: 1 if a fatal operand was reached (earlier operands complete, later untouched), '
                'else 4 if any operand alone gives 4, else 0; non-trivial = distinct operand sequence x flags')
    q = ctx.quick()
    rnd = ctx.rng('seq')
    lb = core.build_lbzip2('hook')
    jobs = []
    for i in range(150 if q else 4000):
        mode = rnd.choice(['compress', 'decompress'])
        ultra = mode == 'compress' and rnd.random() < 0.4
        flags = [f for f, p in (('-k', 0.3), ('-c', 0.25), ('-f', 0.15)) if rnd.random() < p]
        if mode == 'decompress' and rnd.random() < 0.2:
            flags = ['-c', '-f']            # -cdf: non-bzip2 operands are copied, the others decompressed
        jobs.append((i, mode, ultra, flags, rnd.choice([1, 2, 4]), rnd.randrange(1 << 30)))
    # a share of the sequences runs with a standard error that cannot be written (/dev/full): the first diagnostic is then
    # fatal -- in the combined run exactly where it is fatal in the operand-by-operand runs, and nothing done before is undone
    badstderr = set(j[0] for j in jobs if j[5] % 8 == 0)

    def one(j):
        i, mode, ultra, flags, w, sd = j
        r2 = ctx.rng('tree', i)
        dA, names, kinds = make_tree(r2, lb, mode, ultra)
        if '-f' in flags:
            # -f opens directories etc.; keep to documented behaviour: no non-regular operands with -f
            keep = [(n, k) for n, k in zip(names, kinds) if k not in ('skip-dir',)]
            for n, k in zip(names, kinds):
                if k == 'skip-dir':
                    os.rmdir(os.path.join(dA, n))
            names, kinds = [n for n, k in keep], [k for n, k in keep]
            if len(names) < 2:
                shutil.rmtree(dA, ignore_errors=True)
                return
        dB = dA + '.B'
        shutil.copytree(dA, dB, symlinks=True)
        # copytree breaks hard links and times: redo them
        for n, k in zip(names, kinds):
            if k == 'skip-hardlink':
                os.unlink(os.path.join(dB, n + '.lnk')); os.link(os.path.join(dB, n), os.path.join(dB, n + '.lnk'))
        for n in os.listdir(dA):
            st = os.lstat(os.path.join(dA, n))
            if not os.path.isdir(os.path.join(dA, n)):
                os.utime(os.path.join(dB, n), ns=(st.st_atime_ns, st.st_mtime_ns))
        base = [lb] + (['-d'] if mode == 'decompress' else ['-1'] + (['-u'] if ultra else [])) + flags + ['-n', str(w)]
        env = lbz.sched_env(r2) if r2.random() < 0.3 else {}
        errp = '/dev/full' if i in badstderr else None
        rA = core.run(base + names, cwd=dA, env=env, timeout=300, stderr_path=errp)
        ctx.ev()
        outB = b''
        statuses = []
        fatal_at = None
        for k, n in enumerate(names):
            rb = core.run(base + [n], cwd=dB, timeout=300, stderr_path=errp)
            statuses.append(rb.status)
            outB += rb.out
            if rb.rc not in (0, 4):
                fatal_at = k
                break
        sA, sB = fm.snapshot(dA), fm.snapshot(dB)
        shutil.rmtree(dA, ignore_errors=True); shutil.rmtree(dB, ignore_errors=True)
        desc = dict(mode=mode, ultra=ultra, flags=flags, workers=w, operands=list(zip(names, kinds)), separate_statuses=statuses, env=env)
        if errp:
            desc['stderr'] = errp
            ctx.count('sequences_with_unwritable_stderr')
        info = dict(desc, argv=['lbzip2'] + base[1:] + names, combined_status=rA.status, combined_stderr=rA.err[:400].decode(errors='replace'),
                    tree_combined=fm.brief(sA), tree_separate=fm.brief(sB))
        if lbz.bad_ending(ctx, rA, 'combined run %s' % desc, None, info):
            return
        want = 1 if fatal_at is not None else (4 if 'exit4' in statuses else 0)
        key = mode + (':u' if ultra else '')
        if rA.rc != want:
            ctx.violation('status:%s' % key, 'combined invocation exits %s, per-operand rule gives %d (separate: %s): %s' % (rA.status, want, statuses, desc), None, info)
            return
        if not fm.same_ignoring_atime(sA, sB):
            ctx.violation('tree-differs:%s' % key, 'combined and per-operand processing leave different trees: %s | %s' % (fm.changed_names(sA, sB), desc), None, info)
            return
        if '-c' in flags and want != 1 and rA.out != outB:
            ctx.violation('stdout-differs:%s' % key, 'combined -c output (%d bytes) differs from the concatenation of separate runs (%d bytes): %s'
                          % (len(rA.out), len(outB), desc), {'combined.out': rA.out[:2000000], 'separate.out': outB[:2000000]}, info)
            return
        if '-c' in flags and want == 1 and not outB.startswith(rA.out[:0]) and False:
            pass
        ctx.nt((mode, ultra, tuple(flags), w, tuple(kinds)))
        ctx.count('sequences_ok')
        ctx.count('status_%d' % want)
        for k in kinds:
            ctx.count('operand:' + k)
        ctx.sample(dict(mode=mode, ultra=ultra, flags=flags, workers=w, kinds=kinds, status=want), cap=6)
    core.pmap(one, jobs, jobs=12)
    ctx.assumptions = ['a single-operand invocation is the specification of what each operand should produce']
