"""C01 Compression round-trips exactly."""
import hashlib
from .. import core, gen, lbz, ora, inproc

LEVEL = 'exploration'


def cases(ctx, n):
    rnd = ctx.rng('cases')
    out = []
    for i in range(n):
        level = rnd.choice([1, 1, 1, 2, 2, 3, 4, 5, 6, 7, 8, 9])
        maxsize = 1500000 if ctx.quick() else 6000000
        if level >= 4:
            maxsize = min(maxsize, 2 * level * 100000 + 50000) if ctx.quick() else maxsize
        fam, data = gen.pick(rnd, level, maxsize=maxsize)
        out.append(dict(i=i, fam=fam, data=data, level=level, ultra=rnd.random() < 0.4,
                        w1=rnd.choice([1, 2, 3, 4, 8, 16]), w2=rnd.choice([1, 2, 3, 4, 8, 16]),
                        env1=lbz.sched_env(rnd), env2=lbz.sched_env(rnd), feed=lbz.feed_pattern(rnd)))
    for j in range(40 if ctx.quick() else 600):
        level = rnd.choice([1, 1, 1, 2])
        out.append(dict(i=n + 100000 + j, fam='chunk-straddle', data=gen.chunk_straddle(rnd, level), level=level, ultra=rnd.random() < 0.8,
                        w1=rnd.choice([1, 2, 4]), w2=rnd.choice([1, 2]), env1={}, env2={}, feed=None))
    for c in out:
        # small inputs: suspend the run-length emitter everywhere on the way back (H2 output granule)
        if c['data'] is not None and len(c['data']) <= 60000 and rnd.random() < 0.5:
            c['env2'] = dict(c['env2'], LBZIP2_VERIF_OUT_GRANUL=str(rnd.choice([1, 2, 3, 4, 5, 7, 255, 259, 4096])))
    for j in range(6 if ctx.quick() else 120):
        # --sequential blocks that decode to more than the 900000-byte output buffer, with long runs
        pre = rnd.randbytes(rnd.randint(0, 600))
        body = bytes([rnd.randrange(256)]) * rnd.choice([1000000, 1800001, 2700000])
        out.append(dict(i=n + 200000 + j, fam='big-expansion', data=pre + body + rnd.randbytes(rnd.randint(0, 50)), level=rnd.choice([1, 5, 9]),
                        ultra=True, w1=rnd.choice([1, 2, 4]), w2=rnd.choice([1, 2, 4]), env1={}, env2={}, feed=None))
    for j in range(10 if ctx.quick() else 150):
        # many equally expensive, distinct blocks both ways, long naps in the lock-free gaps of the scheduler, and (on the way
        # back) several output chunks per block: every hand-over to the writer is raced
        nb = rnd.choice([24, 40, 64])
        data = rnd.randbytes(100000 * nb) if j % 2 else b''.join(b'%08d' % k + gen.textlike(rnd, 2000) * 50 for k in range(nb))
        gp = lambda: {'LBZIP2_VERIF_SCHED': '%d:gaps:%d' % (rnd.randrange(1, 1 << 30), rnd.choice([1, 2, 5]))}
        out.append(dict(i=n + 300000 + j, fam='lockstep-blocks', data=data, level=1, ultra=rnd.random() < 0.3, w1=rnd.choice([2, 3, 4, 8]),
                        w2=rnd.choice([2, 3, 4, 8]), env1=gp(), env2=dict(gp(), LBZIP2_VERIF_OUT_GRANUL=str(rnd.choice([20000, 65536, 900000]))),
                        feed=None))
    if not ctx.quick():
        files = gen.suite_corpus()
        for j, p in enumerate(files):
            for k in range(2):
                out.append(dict(i=n + 2 * j + k, fam='suite:' + p.split('/')[-1], data=None, path=p,
                                level=rnd.randint(1, 9), ultra=rnd.random() < 0.5,
                                w1=rnd.choice([1, 2, 3, 5, 16]), w2=rnd.choice([1, 2, 4, 16]),
                                env1=lbz.sched_env(rnd), env2=lbz.sched_env(rnd), feed=None))
    return out


def one(ctx, lb, c):
    data = c['data'] if c['data'] is not None else gen.suite_plain(c['path'])
    desc = dict(family=c['fam'], size=len(data), level=c['level'], ultra=c['ultra'], w_comp=c['w1'],
                w_decomp=c['w2'], env_comp=c['env1'], env_decomp=c['env2'], feed=c['feed'])
    argv1 = [lb, '-%d' % c['level'], '-n', str(c['w1'])] + (['-u'] if c['ultra'] else [])
    r1 = core.run(argv1, stdin=data, env=c['env1'], feed=c['feed'], timeout=300)
    ctx.ev()
    files = {'input.bin': data[:4000000]}
    info = dict(desc, argv=argv1)
    if lbz.bad_ending(ctx, r1, 'compress %s' % desc, files, info, 'compress:'):
        return
    if r1.rc != 0 or r1.err:
        ctx.violation('compress:status', 'compression exit=%s stderr=%r on %s' % (r1.status, r1.err[:200], desc), files, info)
        return
    okl, outl, why = ora.libbz2(r1.out)
    if not okl or outl != data:
        ctx.violation('compress:libbz2-differs', 'libbz2 does not decode lbzip2 output to the input (%s) %s' % (why, desc),
                      dict(files, **{'compressed.bz2': r1.out}), info)
        return
    argv2 = [lb, '-d', '-n', str(c['w2'])]
    r2 = core.run(argv2, stdin=r1.out, env=c['env2'], timeout=300)
    info2 = dict(desc, argv=argv2)
    if lbz.bad_ending(ctx, r2, 'decompress %s' % desc, dict(files, **{'compressed.bz2': r1.out}), info2, 'decompress:'):
        return
    if r2.rc != 0 or r2.err:
        ctx.violation('decompress:status', 'decompression exit=%s stderr=%r on %s' % (r2.status, r2.err[:200], desc),
                      dict(files, **{'compressed.bz2': r1.out}), info2)
        return
    if r2.out != data:
        ctx.violation('decompress:bytes-differ', 'round trip differs on %s' % desc,
                      dict(files, **{'compressed.bz2': r1.out, 'got.bin': r2.out[:4000000]}), info2)
        return
    nblocks = r1.out.count(bytes.fromhex('314159265359'))
    if nblocks >= 2 or c['fam'] in ('boundary', 'chunk-straddle'):
        ctx.nt((hashlib.sha1(data).hexdigest(), c['level'], c['ultra'], c['w1']))
    ctx.count('process_roundtrips')
    ctx.count('blocks_seen', nblocks)
    if nblocks >= 2:
        ctx.sample(dict(desc, blocks=nblocks, compressed=len(r1.out)))


def run(ctx):
    ctx.rule = ('process level: seeded plaintext families x level 1-9 x default/-u x 1-16 workers x schedule '
                'perturbation (H1) -> lbzip2 | libbz2 check | lbzip2 -d, bytes/status/stderr compared; non-trivial = '
                'distinct (input sha1, level, mode, workers) with >= 2 blocks or a capacity-boundary input.  in-process: '
                'collect/encode/transmit -> retrieve/decode/emit with seeded buffer splits (codec_h); every case whose '
                'split cuts a run is non-trivial (counted by the harness).')
    lb = core.build_lbzip2('hook')
    n = 300 if ctx.quick() else 3000
    cs = cases(ctx, n)
    core.pmap(lambda c: one(ctx, lb, c), cs)
    # in-process part
    shards = 16
    per = 250 if ctx.quick() else 5000
    def shard(k):
        return inproc.run_codec('plain', ['rnd', per, ctx.seed * 1000 + k, 2000, 0])
    for r, summ, mism in core.pmap(shard, range(shards)):
        if r.rc != 0 or not summ:
            if lbz.bad_ending(ctx, r, 'codec_h rnd', None, dict(argv=r.argv), 'inproc:'):
                continue
            ctx.harness_error('codec_h failed: %s %s' % (r.status, r.err[-300:]))
            continue
        ctx.ev(summ['cases'])
        ctx.count('inproc_cases', summ['cases'])
        ctx.count('inproc_blocks', summ['blocks'])
        ctx.count('inproc_collect_calls', summ['collect_calls'])
        ctx.count('inproc_splits_inside_a_run', summ['split_in_run'])
        for m in mism:
            kind = m.split()[1]
            if kind in ('roundtrip', 'end-position', 'block-crc'):
                ctx.violation('inproc:' + kind, m, {'harness_output.txt': r.out[-20000:]}, dict(argv=r.argv))
    if ctx.monitors.get('inproc_splits_inside_a_run', 0) > 0:
        ctx.nt(('inproc-splits', min(ctx.monitors['inproc_splits_inside_a_run'], 1)))
    ctx.assumptions = ['libbz2 (python bz2) is a correct bzip2 decoder', 'asserts are enabled (no NDEBUG) in the build under test']
