"""C22 Invocation name and option sources select the documented mode."""
import bz2, os, shutil
from .. import core, lbz, fsmodel as fm

LEVEL = 'exploration'
NAMES = ['lbzip2', 'bzip2', 'bunzip2', 'lbunzip2', 'bzcat', 'lbzcat', 'foo', 'BUNZIP2', 'bunzip2.exe', 'xbzcat']
NOOPS = ['-q', '--quiet', '--repetitive-fast', '--repetitive-best', '--exponential', '-s', '--small', '-qs', '-sq']
PLAIN = b'The quick brown fox jumps over the lazy dog.\n' * 40


def gen_tokens(rnd):
    """Random option tokens (no operands) from the documented set."""
    toks = []
    for _ in range(rnd.randint(0, 5)):
        k = rnd.random()
        if k < 0.25:
            toks.append(rnd.choice(['-d', '-z', '--decompress', '--compress']))
        elif k < 0.45:
            toks.append(rnd.choice(['-1', '-2', '-5', '-9', '--fast', '--best', '-3']))
        elif k < 0.55:
            toks.append(rnd.choice(['-k', '--keep']))
        elif k < 0.65:
            toks.append(rnd.choice(['-c', '--stdout']))
        elif k < 0.72:
            toks.append(rnd.choice(['-f', '--force']))
        elif k < 0.80:
            toks.append(rnd.choice(['-u', '--sequential']))
        elif k < 0.86:
            toks.append(rnd.choice(['-n2', '-n 3'.split()[0] + '3', '-n1']))
        elif k < 0.92:
            toks.append(rnd.choice(['-t', '--test', '-t', '-tt']))
        else:
            # a cluster of short options
            cl = ''.join(rnd.sample(['d', 'z', 'k', 'c', 'f', 'u', '4', '7', 't'], rnd.randint(2, 4)))
            toks.append('-' + cl)
    return toks


def model(name, tokens):
    """Documented rules -> (decompress, destination, level, keep); destination is 'file', 'stdout', 'discard' (-t: test
    only, implies -k and decompression) or 'conflict' (-c and -t exclude each other: usage error).  -d / -z select the mode
    and end test mode, so the last of -d, -z, -t decides."""
    dec = name in ('bunzip2', 'lbunzip2', 'bzcat', 'lbzcat')
    out = 'stdout' if name in ('bzcat', 'lbzcat') else 'file'
    level = 9
    keep = False
    LONG = {'decompress': 'd', 'compress': 'z', 'stdout': 'c', 'keep': 'k', 'fast': '1', 'best': '9', 'test': 't'}
    for t in tokens:
        if t.startswith('--'):
            chars = LONG.get(t[2:], '')
        elif t.startswith('-n'):
            chars = ''
        else:
            chars = t[1:]
        for ch in chars:
            if ch in 'dz':
                dec = ch == 'd'
                if out == 'discard':
                    out = 'file'
            elif ch == 'c':
                if out == 'discard':
                    return dec, 'conflict', level, keep
                out = 'stdout'
            elif ch == 't':
                if out == 'stdout':
                    return dec, 'conflict', level, keep
                out = 'discard'
                dec = True
            elif ch == 'k': keep = True
            elif ch in '123456789': level = int(ch)
    return dec, out, level, keep


def execute(lb, bindir, name, env_tokens, arg_tokens, via_argv0, runmon):
    """Run in a fresh scratch dir with one operand x.dat that holds bz2(PLAIN)."""
    d = core.tmpdir()
    content = bz2.compress(PLAIN, 6)
    with open(os.path.join(d, 'x.dat'), 'wb') as f:
        f.write(content)
    os.utime(os.path.join(d, 'x.dat'), ns=(1_600_000_000_000_000_000, 1_600_000_000_000_000_000))
    env = {}
    for var, toks in env_tokens.items():
        if toks is not None:
            env[var] = toks
    if via_argv0:
        argv = [runmon, '-0', name, '--', lb] + arg_tokens + ['x.dat']
    else:
        argv = [os.path.join(bindir, name)] + arg_tokens + ['x.dat']
    r = core.run(argv, cwd=d, env=env, timeout=60)
    snap = fm.snapshot(d)
    shutil.rmtree(d, ignore_errors=True)
    return r, snap, content


def observe(r, snap, content):
    """What a user can see: (status, stdout, directory without access times)."""
    return (r.status, r.out, {n: (v[0], v[1], v[2], v[4]) for n, v in snap.items()})


def run(ctx):
    ctx.rule = ('invocations of the real binary under the names lbzip2, bzip2, bunzip2, lbunzip2, bzcat, lbzcat and unrelated names (symlinks and '
                'argv[0] override) with generated option tokens (short, clustered, long; repeated -d/-z/-t; levels; -k/-c/-f/-u/-n) split between '
                'LBZIP2, BZIP2, BZIP (spaces and tabs) and the command line, on one FILE operand; oracles: (i) env tokens == the same tokens '
                'placed first on the command line, (ii) inserting documented no-op options (-q, --quiet, --repetitive-*, --exponential, -s, '
                '--small) changes nothing, (iii) mode / destination / level / input removal per the documented model; non-trivial = distinct '
                '(name, token list, env split)')
    q = ctx.quick()
    rnd = ctx.rng('inv')
    lb = core.build_lbzip2('hook')
    runmon = core.build_native('runmon')
    bindir = core.tmpdir()
    for n in NAMES:
        os.symlink(lb, os.path.join(bindir, n))
    jobs = []
    for i in range(260 if q else 8000):
        jobs.append((i, rnd.choice(NAMES), gen_tokens(rnd), rnd.random() < 0.3, rnd.randrange(1 << 30)))

    def one(j):
        i, name, toks, via_argv0, sd = j
        r2 = ctx.rng('split', i)
        # split tokens: a prefix goes to the environment (in LBZIP2, BZIP2, BZIP order), the rest on the command line
        cut = r2.randint(0, len(toks))
        envpart, argpart = toks[:cut], toks[cut:]
        c1 = r2.randint(0, len(envpart)); c2 = r2.randint(c1, len(envpart))
        sep = lambda ts: (r2.choice([' ', '\t', '  ', ' \t ']).join(ts)) if ts else None
        envt = {'LBZIP2': sep(envpart[:c1]), 'BZIP2': sep(envpart[c1:c2]), 'BZIP': sep(envpart[c2:])}
        if envt['LBZIP2'] is None and r2.random() < 0.3:
            envt['LBZIP2'] = r2.choice(['', ' ', '\t'])
        base = execute(lb, bindir, name, envt, argpart, via_argv0, runmon)
        ctx.ev()
        desc = dict(name=name, env={k: v for k, v in envt.items() if v is not None}, args=argpart, via='argv0' if via_argv0 else 'symlink')
        info = dict(desc, argv=[name] + argpart + ['x.dat'], status=base[0].status, stderr=base[0].err[:300].decode(errors='replace'))
        if lbz.bad_ending(ctx, base[0], 'invocation %s' % desc, None, info):
            return
        ob = observe(*base)
        # (iii) model
        dec, dest, level, keep = model(name, toks)
        to_stdout = dest == 'stdout'
        content = base[2]
        r, snap = base[0], base[1]
        problems = []
        if dest == 'conflict':
            if r.rc != 1 or not r.err or r.out or sorted(snap) != ['x.dat']:
                problems.append(('conflict', '-c with -t must be refused (exit 1, diagnostic, nothing written): exit %s stderr %r stdout %d bytes directory %s'
                                 % (r.status, r.err[:100], len(r.out), sorted(snap))))
        elif r.rc != 0 or r.err:
            problems.append(('status', 'exit %s stderr %r' % (r.status, r.err[:150])))
        elif dest == 'discard':
            if r.out or sorted(snap) != ['x.dat']:
                problems.append(('destination', 'test mode (-t last) must write nothing and keep the operand: stdout %d bytes, directory %s'
                                 % (len(r.out), sorted(snap))))
        else:
            res = r.out if to_stdout else None
            outname = 'x.dat.out' if dec else 'x.dat.bz2'
            if not to_stdout:
                if outname not in snap:
                    problems.append(('destination', 'expected output file %s, directory has %s' % (outname, sorted(snap))))
                else:
                    res = snap[outname][1]
                if ('x.dat' in snap) != keep:
                    problems.append(('input-removal', 'input %s, model says keep=%s' % ('kept' if 'x.dat' in snap else 'removed', keep)))
                if r.out:
                    problems.append(('destination', 'wrote %d bytes to stdout although the destination is a file' % len(r.out)))
            else:
                if sorted(snap) != ['x.dat']:
                    problems.append(('destination', 'stdout mode but directory has %s' % sorted(snap)))
            if res is not None:
                if dec:
                    if res != PLAIN:
                        problems.append(('mode', 'model says decompress, but the result is not the plaintext (%d bytes)' % len(res)))
                else:
                    if res[:3] != b'BZh' or not fm.bz2_ok(res, content):
                        problems.append(('mode', 'model says compress, but the result does not decompress to the operand'))
                    elif res[3] != 0x30 + level:
                        problems.append(('level', 'header digit %c, model says level %d' % (res[3], level)))
        if problems:
            ctx.violation('model:%s:%s' % (problems[0][0], name), '; '.join(p[1] for p in problems[:3]) + ' | %s (model: decompress=%s destination=%s level=%d keep=%s)'
                          % (desc, dec, dest, level, keep), None, info)
            return
        # (i) env tokens == leading command-line tokens
        twin = execute(lb, bindir, name, {}, toks, via_argv0, runmon)
        ctx.ev()
        if observe(*twin) != ob:
            ctx.violation('env-equivalence:' + name, 'tokens in the environment act differently from the same tokens placed first on the command line: %s; '
                          'env run %s / args run %s' % (desc, base[0].status, twin[0].status), None, dict(info, twin_argv=[name] + toks + ['x.dat']))
            return
        # (ii) no-ops change nothing
        withn = list(toks)
        for _ in range(r2.randint(1, 3)):
            withn.insert(r2.randint(0, len(withn)), r2.choice(NOOPS))
        tw2 = execute(lb, bindir, name, {}, withn, via_argv0, runmon)
        ctx.ev()
        if observe(*tw2) != ob:
            ctx.violation('noop-changes-result:' + name, 'adding documented no-op options changes the result: %s vs %s (%s / %s)'
                          % (toks, withn, base[0].status, tw2[0].status), None, dict(info, twin_argv=[name] + withn + ['x.dat']))
            return
        ctx.nt((name, tuple(toks), cut, c1, c2))
        ctx.count('name:' + name)
        ctx.count('mode:' + ('decompress' if dec else 'compress') + ':' + dest)
        ctx.sample(dict(desc, model=dict(decompress=dec, destination=dest, level=level, keep=keep)), cap=8)
    core.pmap(one, jobs)
    shutil.rmtree(bindir, ignore_errors=True)
    ctx.assumptions = ['only documented options are generated; -v and -S are exercised elsewhere']
