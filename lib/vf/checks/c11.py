"""C11 Schedulers are deadlock-free, bounded and order-preserving."""
import hashlib, os
from .. import core, gen, lbz, trace, ora, dcorpus, bzsynth as bs

LEVEL = 'exploration'


def perturb(rnd):
    k = rnd.random()
    s = rnd.randrange(1, 1 << 30)
    if k < 0.35:
        return {'LBZIP2_VERIF_SCHED': '%d:straggler:%d' % (s, rnd.choice([10, 30, 80]))}
    if k < 0.45:
        return {'LBZIP2_VERIF_SCHED': '%d:gaps:%d' % (s, rnd.choice([1, 2, 5]))}
    if k < 0.7:
        return {'LBZIP2_VERIF_SCHED': '%d:jitter' % s}
    if k < 0.9:
        return {'LBZIP2_VERIF_SCHED': '%d:slowthread' % s}
    return {}


def one(ctx, lb, c):
    tr = core.tmppath('.trc')
    env = dict(c['env'], LBZIP2_VERIF_TRACE=tr)
    r = core.run(c['argv'](lb), stdin=c['stdin'], env=env, timeout=150, drain=c.get('drain'), feed=c.get('feed'))
    ctx.ev()
    desc = dict(kind=c['kind'], workers=c['w'], env=c['env'], input=c['name'], size=len(c['stdin']), drain=c.get('drain'))
    files = {'stdin.bin': c['stdin'][:3000000]}
    info = dict(desc, argv=c['argv']('lbzip2'))
    ev = trace.parse(tr)
    try:
        os.unlink(tr)
    except OSError:
        pass
    if lbz.bad_ending(ctx, r, '%s' % desc, files, info, c['kind'] + ':'):
        return
    if c['expect_rc'] is not None and r.rc != c['expect_rc']:
        ctx.violation(c['kind'] + ':status', 'exit %s (want %d) %s stderr=%r' % (r.status, c['expect_rc'], desc, r.err[:200]), files, info)
        return
    if c['expect_out'] is not None and r.rc == 0 and r.out != c['expect_out']:
        ctx.violation(c['kind'] + ':bytes', 'output differs from the reference (%d vs %d bytes) %s' % (len(r.out), len(c['expect_out']), desc), files, info)
        return
    if not ev:
        ctx.harness_error('no trace events recorded for %s' % desc)
        return
    rs = trace.runs(ev)
    for run in rs:
        problems, stats = trace.check_run(run)
        ctx.count('trace_events', stats['events'])
        ctx.count('tasks_observed', stats['tasks'])
        for k, v in stats.items():
            if k.startswith('hw_'):
                ctx.maxmon('highwater_%s_of_%d' % (k[3:], v[1]), v[0]) if False else ctx.maxmon('highwater_' + k[3:], v[0])
                if v[0] == v[1]:
                    ctx.count('runs_filling_' + k[3:])
        for k in ('bogus', 'misrecognised', 'advanced_over', 'scan_hits_unique', 'taken', 'blocks', 'buffers', 'handoff_push_pairs'):
            if stats.get(k):
                ctx.count(k, stats[k])
        if problems:
            ctx.violation(c['kind'] + ':trace:' + problems[0].split()[0], 'trace check: %s | %s' % ('; '.join(problems[:3]), desc), files, info)
            return
    sig = trace.signature(ev)
    ctx.nt((c['kind'], sig))
    ctx.sample(dict(desc, schedule_signature=sig, events=len(ev)), cap=6)


def run(ctx):
    ctx.rule = ('real scheduler under seeded perturbation (straggler / jitter / slow thread / naps in lock-free gaps, H1) with capacity (H3), conservation (H4) and '
                'task-guard (H5) assertions live and the event trace (H6) checked offline for order, exactly-once, contiguity, queue '
                'high-water <= capacity and end-of-run conservation; workloads: many small blocks at 1-3 workers, block splits (RLE '
                'expansion), -u mode, multi-buffer outputs (small OUT_GRANUL), small input granules, floods of spurious candidates, '
                'throttled writer; a hang is a violation only with deadlock evidence; non-trivial = distinct (direction, schedule '
                'signature) pairs, the signature being a hash of the recorded task/hand-off sequence')
    q = ctx.quick()
    rnd = ctx.rng('cases')
    lb = core.build_lbzip2('hook')
    cs = []
    # compression workloads
    plains = []
    for i in range(10 if q else 60):
        k = rnd.random()
        if k < 0.3:
            d = gen.uniform(rnd, rnd.choice([300000, 700000, 1500000]))
        elif k < 0.5:
            d = gen.runs(rnd, rnd.choice([500000, 1200000]))       # splits: RLE expansion varies
        elif k < 0.7:
            d = gen.textlike(rnd, rnd.choice([400000, 1000000]))
        else:
            d = gen.make(rnd, 'concat', 900000, 1)
        plains.append(d)
    plains += [b'', b'x', gen.uniform(rnd, 100000), gen.uniform(rnd, 100001), rnd.randbytes(3000000)]   # the last: 30 equally expensive blocks
    ncomp = 220 if q else 3000
    for i in range(ncomp):
        d = rnd.choice(plains)
        w = rnd.choice([1, 1, 2, 2, 3, 3, 4, 8])
        ultra = rnd.random() < 0.35
        level = 1
        cs.append(dict(kind='compress-u' if ultra else 'compress', name='plain%d' % plains.index(d), stdin=d, w=w, env=perturb(rnd),
                       argv=(lambda lb, w=w, ultra=ultra, level=level: [lb, '-%d' % level, '-n', str(w)] + (['-u'] if ultra else [])),
                       expect_rc=0, expect_out=None,
                       drain=rnd.choice([None, None, (4096, 0.0005), (65536, 0.002)]),
                       feed=rnd.choice([None, None, ([99999, 1, 100001], 0.0005)])))
    # equally expensive blocks + long naps in the lock-free gaps: every hand-over between two critical sections is raced
    for i in range(16 if q else 200):
        w = rnd.choice([2, 3, 4, 8])
        cs.append(dict(kind='compress', name='lockstep-gaps', stdin=plains[-1], w=w,
                       env={'LBZIP2_VERIF_SCHED': '%d:gaps:%d' % (rnd.randrange(1, 1 << 30), rnd.choice([1, 2, 5]))},
                       argv=(lambda lb, w=w: [lb, '-1', '-n', str(w)]), expect_rc=0, expect_out=None,
                       drain=rnd.choice([None, None, (65536, 0.001)])))
    for i in range(24 if q else 250):
        d = rnd.choice(plains[:6])
        w = rnd.choice([1, 2, 3, 4])
        ultra = rnd.random() < 0.3
        cs.append(dict(kind='compress-u' if ultra else 'compress', name='plain%d-holdblock' % plains.index(d), stdin=d, w=w,
                       env={'LBZIP2_VERIF_SCHED': '%d:holdblock:%d' % (rnd.randrange(1, 1 << 30), rnd.choice([100, 250]))},
                       argv=(lambda lb, w=w, ultra=ultra: [lb, '-1', '-n', str(w)] + (['-u'] if ultra else [])),
                       expect_rc=0, expect_out=None, drain=rnd.choice([None, (4096, 0.0005)])))
    for i in range(24 if q else 250):
        w = rnd.choice([3, 3, 4, 5, 6])
        tail = rnd.randint(2 * w + 1, 3 * w + 1)
        nblk = tail + rnd.randint(1, 4)
        d = b''.join((rnd.randbytes(100000) if k == nblk - tail - 1 else bytes(100000)) for k in range(nblk))
        cs.append(dict(kind='compress', name='late-heavy-block', stdin=d, w=w,
                       env={'LBZIP2_VERIF_SCHED': '%d:holdblock:%d' % (rnd.randrange(1, 1 << 30), rnd.choice([150, 400])),
                            'LBZIP2_VERIF_HOLDKEY': str(nblk - tail - 1)},
                       argv=(lambda lb, w=w: [lb, '-1', '-n', str(w)]), expect_rc=0, expect_out=None))
    # decompression workloads
    comps = []
    for d in plains[:8]:
        r = core.run([lb, '-1', '-n', '4'], stdin=d, timeout=120)
        comps.append((r.out, d))
    for i in range(4 if q else 20):
        data, plain, o = dcorpus.synth_valid(rnd, nstreams=rnd.randint(2, 6))
        comps.append((data, plain))
    # floods of spurious candidates
    for i in range(3 if q else 12):
        pieces = [bs.MAGIC_BYTES + rnd.randbytes(rnd.choice([4, 8, 30])).replace(b'\xff', b'\x01') for _ in range(rnd.choice([20, 60, 150]))]
        sts = [bs.Stream(9, [bs.plant_block(rnd, pieces, filler=40)]) for _ in range(rnd.randint(1, 3))]
        data = bs.build(sts)
        v, info, out = ora.refbz(data)
        if v == 'VALID':
            comps.append((data, out))
    # decodable bogus candidates that follow the sequential decoder across input blocks (finding F2)
    fol = dcorpus.follower_stream(rnd, 3000, 60000)
    comps.append(fol)
    folbig = dcorpus.follower_stream(rnd, 60000, 700000)
    # one expensive block followed by very many cheap ones: the head of line holds the reserved resources while
    # everything else piles up behind it (order_q / reord_q pressure)
    import bz2 as _bz2
    for i in range(2 if q else 8):
        head = gen.uniform(rnd, rnd.choice([300000, 800000]))
        tiny = [bytes([65 + k % 26]) * (1 + k % 5) for k in range(rnd.choice([120, 400]))]
        data = core.run([lb, '-9', '-n', '2'], stdin=head, timeout=120).out + b''.join(_bz2.compress(t, 1) for t in tiny)
        comps.append((data, head + b''.join(tiny)))
        many_tiny_idx = len(comps) - 1
    with open(os.path.join(core.REPO, 'tests', 'ch255.bz2'), 'rb') as f:
        bomb = f.read()
    v, info, bombout = ora.refbz(bomb)
    comps.append((bomb * 2, bombout * 2))
    ndec = 260 if q else 4000
    for i in range(ndec):
        data, plain = rnd.choice(comps)
        w = rnd.choice([1, 1, 2, 2, 3, 3, 4, 8])
        env = perturb(rnd)
        if rnd.random() < 0.5:
            env['LBZIP2_VERIF_OUT_GRANUL'] = str(rnd.choice([1000, 4096, 20000, 65536, 300000]))
        if rnd.random() < 0.4:
            env['LBZIP2_VERIF_IN_GRANUL'] = str(rnd.choice([64, 256, 1024, 4096, 65536]))
        if len(plain) > 3000000:
            env.pop('LBZIP2_VERIF_OUT_GRANUL', None)
        cs.append(dict(kind='decompress', name='comp%d' % comps.index((data, plain)), stdin=data, w=w, env=env,
                       argv=(lambda lb, w=w: [lb, '-d', '-n', str(w)]), expect_rc=0, expect_out=plain,
                       drain=rnd.choice([None, None, (65536, 0.001), (8192, 0.0002)])))
    for i in range(24 if q else 200):
        w = rnd.choice([2, 3, 4])
        big = rnd.random() < 0.4
        data, plain = folbig if big else fol
        env = {'LBZIP2_VERIF_SCHED': '%d:straggler:%d' % (rnd.randrange(1, 1 << 30), rnd.choice([40, 80]))}
        if not big:
            env['LBZIP2_VERIF_IN_GRANUL'] = str(rnd.choice([1024, 4096, 16384]))
        cs.append(dict(kind='decompress', name='follower-big' if big else 'follower', stdin=data, w=w, env=env,
                       argv=(lambda lb, w=w: [lb, '-d', '-n', str(w)]), expect_rc=0, expect_out=plain))
    # finding F4: a mis-recognised candidate queued in front of the awaited block while later speculative blocks hold all but the
    # reserved output slots (tiny granules scale the slot arithmetic down to a 1.9 KB input)
    with open(os.path.join(core.ROOT, 'witness', 'f4_shadowed_emit.bz2'), 'rb') as f:
        f4 = f.read()
    f4out = ora.refbz(f4)[2]
    for i in range(60 if q else 600):
        w = rnd.choice([16, 16, 8, 12])
        env = {'LBZIP2_VERIF_IN_GRANUL': '100', 'LBZIP2_VERIF_OUT_GRANUL': rnd.choice(['1', '1', '2'])}
        if i % 2:
            env['LBZIP2_VERIF_SCHED'] = '%d:slowthread' % rnd.randrange(1, 1 << 30)
        cs.append(dict(kind='decompress', name='shadowed-emit-f4', stdin=f4, w=w, env=env,
                       argv=(lambda lb, w=w: [lb, '-d', '-n', str(w)]), expect_rc=0, expect_out=f4out))
    with open(os.path.join(core.ROOT, 'witness', 'f3_flood_251_candidates.bz2'), 'rb') as f:
        f3 = f.read()
    f3out = ora.refbz(f3)[2]
    for i in range(16 if q else 300):
        w = rnd.choice([2, 3, 4, 8])
        cs.append(dict(kind='decompress', name='flood-f3', stdin=f3, w=w,
                       env={'LBZIP2_VERIF_SCHED': '%d:jitter' % rnd.randrange(1, 1 << 30), 'LBZIP2_VERIF_IN_GRANUL': '64'},
                       argv=(lambda lb, w=w: [lb, '-d', '-n', str(w)]), expect_rc=0, expect_out=f3out))
    for i in range(30 if q else 300):
        data, plain = comps[many_tiny_idx - (i % 2 if not q else 0)] if not q else comps[many_tiny_idx - i % 2]
        w = rnd.choice([2, 2, 3, 4])
        if rnd.random() < 0.7:
            # hold back the head block only (key 0): everything behind it must pile up within the queue capacities
            env = {'LBZIP2_VERIF_SCHED': '%d:holdblock:%d' % (3 * rnd.randrange(1, 1 << 20), rnd.choice([150, 300, 500]))}
        else:
            env = {'LBZIP2_VERIF_SCHED': '%d:straggler:%d' % (rnd.randrange(1, 1 << 30), rnd.choice([30, 80, 150]))}
        cs.append(dict(kind='decompress', name='head+many-tiny', stdin=data, w=w, env=env,
                       argv=(lambda lb, w=w: [lb, '-d', '-n', str(w)]), expect_rc=0, expect_out=plain,
                       feed=rnd.choice([None, ([len(data) // 3, 1 << 20], 0.05)])))
    # failing decompression: trace is a prefix, order must still hold
    for i in range(20 if q else 600):
        data, plain = rnd.choice(comps[:10])
        if len(data) < 50:
            continue
        cut = data[:rnd.randrange(20, len(data))]
        w = rnd.choice([1, 2, 3, 4])
        cs.append(dict(kind='decompress-fail', name='trunc', stdin=cut, w=w, env=perturb(rnd),
                       argv=(lambda lb, w=w: [lb, '-d', '-n', str(w)]), expect_rc=None, expect_out=None))
    rnd.shuffle(cs)
    core.pmap(lambda c: one(ctx, lb, c), cs, jobs=12)
    ctx.extra['distinct_schedule_signatures'] = len(ctx.nontrivial)
    if not ctx.monitors.get('tasks_observed'):
        ctx.harness_error('the trace recorded no task starts')
    ctx.assumptions = ['deadlock-freedom is restated as bounded progress on the explored perturbed schedules; the exhaustive-model half of the quantifier is not claimed',
                       'hook assertions abort the process (SIGABRT is a violation)']
