"""C10 Speculative block discovery never influences the output."""
import hashlib, os
from .. import core, lbz, ora, dcorpus, trace, bzsynth as bs

LEVEL = 'exploration'
MAGIC = bs.MAGIC_BYTES
PAT = format(0x314159265359, '048b')


def noff(b):
    return b.replace(b'\xff', b'\x7f')


def inner_block_bytes(rnd):
    """Bytes of a complete valid small block (header..EOB), free of 0xFF."""
    for _ in range(200):
        b = bs.rand_block(rnd, 9, nsyms=rnd.choice([5, 30, 80]), nin=rnd.choice([2, 3, 8, 40]), ntrees=2)
        bw = bs.BW()
        b.write(bw)
        raw = bw.tobytes()
        fixed = bs.fix_crcs(b'BZh9' + raw + bytes.fromhex('177245385090') + b'\0\0\0\0')
        body = fixed[4:4 + len(raw)]
        if b'\xff' not in body and b'\0\0\0\0' not in body and b'\1\1\1' not in body:
            return body
    return None


def make_case(rnd, kind):
    """-> (data, note) ; data may be valid or invalid."""
    pieces = []
    if kind == 'pattern-alone':
        pieces = [MAGIC for _ in range(rnd.randint(1, 5))]
    elif kind == 'pattern+crc+garbage':
        pieces = [MAGIC + noff(rnd.randbytes(rnd.choice([4, 6, 40, 200]))) for _ in range(rnd.randint(1, 6))]
    elif kind == 'inner-block':
        for _ in range(rnd.randint(1, 3)):
            ib = inner_block_bytes(rnd)
            if ib:
                pieces.append(ib)
    elif kind == 'flood':
        pieces = [MAGIC + noff(rnd.randbytes(rnd.choice([4, 5, 9]))) for _ in range(rnd.choice([150, 250, 400]))]
    elif kind == 'adjacent':
        # patterns one byte apart / overlapping the 80 bits consumed by a hit
        pieces = [MAGIC + noff(rnd.randbytes(rnd.randint(0, 9))) + MAGIC + noff(rnd.randbytes(4)) for _ in range(4)]
    if kind in ('pattern-alone', 'pattern+crc+garbage', 'inner-block', 'flood', 'adjacent'):
        nb = rnd.randint(1, 3)
        blocks = []
        for i in range(nb):
            ps = pieces if i == 0 else [MAGIC + noff(rnd.randbytes(6))]
            blocks.append(bs.plant_block(rnd, ps, filler=rnd.choice([10, 60, 300])))
            if rnd.random() < 0.4:
                blocks.append(bs.rand_block(rnd, 9, nsyms=rnd.choice([10, 100])))
        sts = [bs.Stream(9, blocks)]
        if rnd.random() < 0.3:
            sts.append(bs.rand_stream(rnd, nblocks=1))
        data = bs.build(sts)
        return data
    if kind == 'trailing-garbage':
        base, plain, o = dcorpus.synth_valid(rnd, trailing=b'')
        second, p2, o2 = dcorpus.synth_valid(rnd, trailing=b'')
        junk = rnd.choice([b'x', b'\0' * 5, b'BZh0', b'junk!'])
        many = b''
        if rnd.random() < 0.5:
            # dozens of complete valid streams after the garbage: all of them must be ignored
            import bz2 as _bz2
            many = b''.join(_bz2.compress(b'trailing %d ' % k * rnd.randint(1, 30), rnd.randint(1, 9)) for k in range(rnd.choice([20, 31, 47, 62, 130])))
        g = junk + MAGIC + rnd.randbytes(rnd.choice([4, 30])) + rnd.choice([b'', second, second[4:], MAGIC * 3]) + many
        return base + g
    if kind == 'trailing-many-after-big-block':
        # a slow last block, then garbage, then dozens of complete streams the scanner will find: the parser reaches
        # the end of the input while the last real block is still being decoded and every output slot is taken
        import bz2 as _bz2
        big = _bz2.compress(rnd.randbytes(rnd.choice([400000, 900000])), 9)
        n = rnd.choice([14, 30, 31, 46, 47, 62, 63, 64, 126, 130])
        many = b''.join(_bz2.compress(b'trailing %d ' % k * rnd.randint(1, 20), rnd.randint(1, 9)) for k in range(n))
        return big + rnd.choice([b'x', b'garbage', b'\0' * 3]) + many
    if kind == 'near-true-header':
        # a pattern 1..3 bits before / after the true next header cannot be planted in coded data reliably;
        # use block-level raw tails: extra pattern bits right after a block's EOB are not valid (bad magic) -> invalid stream
        b1 = bs.rand_block(rnd, 9, nsyms=40)
        b1.raw_tail = rnd.choice(['', '0', '1', '10', '110']) + PAT + format(rnd.getrandbits(32), '032b')
        b2 = bs.rand_block(rnd, 9, nsyms=40)
        return bs.build([bs.Stream(9, [b1, b2])])
    if kind == 'invalid-outer':
        data = make_case(rnd, rnd.choice(['inner-block', 'pattern+crc+garbage', 'flood']))
        v, info, _ = ora.refbz(data, want_out=False)
        if v == 'VALID' and info['streams'][0]['blocks']:
            b = rnd.choice(info['streams'][0]['blocks'])
            return bs.flip_bit(data, b['crc_at'] + rnd.randrange(32))
        return data[:len(data) // 2]
    raise ValueError(kind)


KINDS = ['trailing-many-after-big-block', 'pattern-alone', 'pattern+crc+garbage', 'inner-block', 'flood', 'adjacent', 'trailing-garbage', 'near-true-header',
         'invalid-outer', 'follower']


def pattern_positions(data):
    bits = ''.join(format(b, '08b') for b in data)
    out = []
    i = bits.find(PAT)
    while i >= 0:
        out.append(i)
        i = bits.find(PAT, i + 1)
    return out


def one(ctx, lb, c):
    data = c['data']
    files = {'input.bz2': data[:2000000]}
    verdict, inf, refout = c['ref']
    want_rc = 0 if verdict == 'VALID' else 1
    for v in c['variants']:
        tr = core.tmppath('.trc')
        env = dict(v['env'], LBZIP2_VERIF_TRACE=tr)
        argv = [lb, '-d', '-n', str(v['w'])]
        r = core.run(argv, stdin=data, env=env, timeout=150)
        ctx.ev()
        ev = trace.parse(tr)
        try:
            os.unlink(tr)
        except OSError:
            pass
        desc = dict(kind=c['kind'], size=len(data), patterns=c['npat'], real_blocks=c['nreal'], workers=v['w'], env=v['env'], reference=verdict)
        info = dict(desc, argv=argv)
        if lbz.bad_ending(ctx, r, '%s' % desc, files, info):
            continue
        if r.rc != want_rc or (r.sig is not None):
            ctx.violation('status:%s-on-%s:%s' % (r.status, verdict.lower(), c['kind']),
                          'lbzip2 -d gives %s but the sequential reference says %s (%s): %s stderr=%r'
                          % (r.status, verdict, inf['reason'], desc, r.err[:150]), files, info)
            continue
        if want_rc == 0 and r.out != refout:
            ctx.violation('bytes:' + c['kind'], 'output differs from the sequential decoding (%d vs %d bytes): %s' % (len(r.out), len(refout), desc),
                          dict(files, **{'expected.out': refout[:2000000], 'got.out': r.out[:2000000]}), info)
            continue
        for run in trace.runs(ev):
            p, st = trace.check_run(run)
            for k in ('scan_hits_unique', 'scan_hits_known', 'misrecognised', 'bogus', 'advanced_over', 'taken'):
                if st.get(k):
                    ctx.count('trace_' + k, st[k])
        ctx.nt((hashlib.sha1(data).hexdigest()[:12], v['w'], repr(sorted(v['env'].items()))))
        ctx.count('kind:' + c['kind'])
    ctx.sample(dict(kind=c['kind'], size=len(data), planted_patterns=c['npat'], real_blocks=c['nreal'], reference=verdict, variants=len(c['variants'])), cap=8)


def run(ctx):
    ctx.rule = ('streams with spurious 48-bit header patterns planted by the synthesizer (256-symbol flat 8-bit code => arbitrary bytes in coded '
                'data): pattern alone, pattern + 32 bits + garbage, complete valid inner blocks, floods of 100+ candidates, adjacent patterns, '
                'patterns and whole streams in trailing garbage, a decodable bogus block that follows the decoder across input blocks, invalid '
                'outer streams with valid inner ones; each run at 2-16 workers x schedule perturbation x input granules chosen so that the '
                'pattern straddles an input-block boundary at bit k; status and bytes compared with the sequential reference; the hook '
                'trace must show the discard paths were taken; non-trivial = distinct (input, workers, configuration)')
    q = ctx.quick()
    rnd = ctx.rng('cases')
    lb = core.build_lbzip2('hook')
    cs = []
    nper, nvar = (7, 10) if q else (160, 28)
    fol = dcorpus.follower_stream(rnd, 2000, 40000)
    for kind in KINDS:
        for i in range(nper if kind != 'follower' else 2):
            if kind == 'follower':
                data = fol[0]
            else:
                try:
                    data = make_case(rnd, kind)
                except core.HarnessError:
                    raise
                except AssertionError:
                    continue
            ref = ora.refbz(data)
            if ref[0] == 'EXCEPTION':
                continue
            pos = pattern_positions(data) if len(data) < 300000 else []
            nreal = sum(len(s['blocks']) for s in ref[1]['streams'])
            vs = []
            for j in range(nvar):
                env = lbz.sched_env(rnd, allow_none=True)
                if pos and rnd.random() < 0.7:
                    p = rnd.choice(pos)
                    # granule boundary after the k-th bit of the pattern (k in 1..79, k = -p mod 32)
                    k = (-p) % 32 + 32 * rnd.randint(0, 2)
                    if 1 <= k <= 79 and (p + k) % 32 == 0 and (p + k) // 8 >= 4:
                        g = (p + k) // 8
                        # any divisor of g that is a multiple of 4 also puts a boundary there
                        divs = [d for d in (g, g // 2, g // 3, g // 4) if d >= 4 and d % 4 == 0 and g % d == 0]
                        env['LBZIP2_VERIF_IN_GRANUL'] = str(rnd.choice(divs))
                        ctx.count('variants_with_pattern_straddling_boundary')
                elif rnd.random() < 0.5:
                    env['LBZIP2_VERIF_IN_GRANUL'] = str(rnd.choice([64, 256, 1024, 4096, 65536]))
                if len(data) / int(env.get('LBZIP2_VERIF_IN_GRANUL', 262144)) > 300 and ('straggler' in env.get('LBZIP2_VERIF_SCHED', '') or 'gaps' in env.get('LBZIP2_VERIF_SCHED', '')):
                    env['LBZIP2_VERIF_SCHED'] = env['LBZIP2_VERIF_SCHED'].split(':')[0] + ':jitter'
                if kind == 'flood' and j % 2 == 0:
                    # many candidates whose retrieve jobs are dropped mid-header: stresses the candidate table (finding F3)
                    env['LBZIP2_VERIF_IN_GRANUL'] = '64'
                    env['LBZIP2_VERIF_SCHED'] = '%d:jitter' % rnd.randrange(1, 1 << 30)
                if kind == 'trailing-many-after-big-block':
                    env = {'LBZIP2_VERIF_SCHED': '%d:holdblock:%d' % (3 * rnd.randrange(1, 1 << 20), rnd.choice([100, 250]))} if j % 3 else env
                    env.pop('LBZIP2_VERIF_IN_GRANUL', None)
                if kind == 'follower':
                    env['LBZIP2_VERIF_SCHED'] = '%d:straggler:40' % rnd.randrange(1, 1 << 30)
                    env['LBZIP2_VERIF_IN_GRANUL'] = str(rnd.choice([1024, 4096]))
                vs.append(dict(w=rnd.choice([2, 3, 4, 8, 16]), env=env))
            cs.append(dict(kind=kind, data=data, ref=ref, npat=len(pos), nreal=nreal, variants=vs))
            ctx.count('planted_pattern_occurrences', max(0, len(pos) - nreal))
    core.pmap(lambda c: one(ctx, lb, c), cs, jobs=12)
    for k in ('trace_scan_hits_unique', 'trace_misrecognised', 'trace_bogus'):
        if not ctx.monitors.get(k):
            ctx.harness_error('speculation path never observed in the traces: ' + k)
    ctx.assumptions = ['refbz is the sequential decoding', 'status compared on every run, bytes on exit-0 runs']
