"""C02 Compressed output is a strictly well-formed bzip2 stream."""
import hashlib
from .. import core, ora, streams

LEVEL = 'exploration'


def one(ctx, lb, c):
    streams.materialise(c)
    res = streams.compress(ctx, lb, c, tables=True)
    ctx.ev()
    if res is None:
        return
    r, verdict, inf, desc, files, info = res
    files = dict(files, **{'compressed.bz2': r.out})
    data = c['data']
    okl, outl, why = ora.libbz2(r.out)
    if not okl or outl != data:
        ctx.violation('libbz2-differs', 'libbz2 does not decode the output to the input (%s) %s' % (why, desc), files, info)
        return
    if verdict != 'VALID':
        ctx.violation('inspector:' + inf['reason'].replace(' ', '-'), 'strict inspector: %s (%s) at bit %s on %s'
                      % (verdict, inf['reason'] or inf['exception'], inf['at_bit'], desc), files, info)
        return
    if len(inf['streams']) != 1 or inf.get('trailing_bytes', 0) != 0:
        ctx.violation('shape', 'expected exactly one stream and no trailing bytes: %s' % desc, files, info)
        return
    st = inf['streams'][0]
    problems = []
    if st['level'] != c['level']:
        problems.append('header-digit %d != %d' % (st['level'], c['level']))
    for bi, b in enumerate(st['blocks']):
        if b['nblock'] > c['level'] * 100000:
            problems.append('block %d holds %d > capacity' % (bi, b['nblock']))
        if b['rand']:
            problems.append('block %d randomised' % bi)
        if not (b['orig'] < b['nblock']):
            problems.append('block %d primary index' % bi)
        if not (2 <= b['ntrees'] <= 6):
            problems.append('block %d has %d tables' % (bi, b['ntrees']))
        if b['nsel'] > 18002:
            problems.append('block %d has %d selectors' % (bi, b['nsel']))
        if b['magic_at'] % 8 != 0 and False:
            pass
        for ti, t in enumerate(b['tables']):
            if t['kraft'] != 0:
                problems.append('block %d table %d %s (used by %d groups)' % (bi, ti, 'incomplete' if t['kraft'] < 0 else 'oversubscribed', t['used']))
            if t['min'] < 1 or t['max'] > 20 or min(t['len']) < 1 or max(t['len']) > 20:
                problems.append('block %d table %d length outside 1-20' % (bi, ti))
            ctx.count('tables')
            if t['used'] == 0:
                ctx.count('unused_tables')
            if ti == 0 and t['start'] != t['len'][0]:
                ctx.count('blocks_with_padded_first_delta')
            if ti == 0:
                ctx.maxmon('max_first_table_RUNA_length', t['len'][0])
                if t['len'][0] >= 18 and t['start'] != t['len'][0]:
                    ctx.count('blocks_with_padded_first_delta_and_RUNA_length_18_or_more')
        ctx.count('blocks')
        if b['nsel'] == b['groups'] + 1:
            ctx.count('blocks_with_padding_selector')
        ctx.maxmon('max_selectors', b['nsel'])
        ctx.maxmon('max_block_rle_size', b['nblock'])
        ctx.maxmon('max_code_length', max(t['maxlen'] for t in b['tables']))
    if st['stored_scrc'] != st['scrc']:
        problems.append('stream crc')
    if problems:
        ctx.violation('inspector:' + problems[0].split()[0], '; '.join(problems[:5]) + ' on %s' % desc, files, info)
        return
    ctx.count('streams')
    ctx.nt((hashlib.sha1(data).hexdigest(), c['level'], c['ultra']))
    if len(st['blocks']) >= 1:
        ctx.sample(dict(desc, blocks=len(st['blocks']), first_block=dict((k, st['blocks'][0][k]) for k in ('nblock', 'ntrees', 'nsel', 'groups'))))


def run(ctx):
    ctx.rule = ('every stream lbzip2 writes for generated inputs (tiny single-table blocks, MTF counts around multiples of 50, '
                'boundary inputs, incompressible level-9 blocks with ~18001 groups, general families) is parsed by the strict '
                'inspector refbz and decoded by libbz2; non-trivial = distinct (input sha1, level, mode) with a fully inspected stream')
    lb = core.build_lbzip2('hook')
    q = ctx.quick()
    cs = streams.expand_generated(streams.compress_cases(ctx, 200 if q else 3000, 300 if q else 4000, nbig=3 if q else 40))
    core.pmap(lambda c: one(ctx, lb, c), cs)
    core.pmap(lambda c: one(ctx, lb, c), streams.deep_runa_cases(ctx, lb, 40 if q else 400))
    for k in ('unused_tables', 'blocks_with_padding_selector', 'blocks_with_padded_first_delta'):
        if not ctx.monitors.get(k):
            ctx.harness_error('corner mechanism never exercised: ' + k)
    ctx.assumptions = ['refbz implements the strict format rules', 'libbz2 is a correct decoder']
