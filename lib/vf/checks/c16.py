"""C16 Interrupted or failed runs never lose data."""
import errno, os, shutil, signal, subprocess, threading, time
from .. import core, lbz, shim, gen

LEVEL = 'fault_enumeration'
ERRS = {'read': ['EIO'], 'write': ['EIO', 'ENOSPC', 'EFBIG'], 'close': ['EIO'], 'open': ['EACCES', 'ENOSPC'],
        'fchown': ['EPERM'], 'fchmod': ['EPERM'], 'futimens': ['EPERM'], 'unlink': ['EPERM']}
SIGS = [('SIGINT', signal.SIGINT), ('SIGTERM', signal.SIGTERM), ('SIGKILL', signal.SIGKILL)]


def classify(d, inname, outname, indata, outdata):
    names = sorted(os.listdir(d))
    def content(n):
        try:
            with open(os.path.join(d, n), 'rb') as f:
                return f.read()
        except FileNotFoundError:
            return None
    ci, co = content(inname), content(outname)
    st = dict(names=names,
              input='intact' if ci == indata else 'missing' if ci is None else 'DAMAGED',
              output='absent' if co is None else 'complete' if co == outdata else 'partial(%d/%d)' % (len(co), len(outdata)))
    extra = [n for n in names if n not in (inname, outname)]
    st['extra'] = extra
    return st


def verdict(st, r, keep, action, kind):
    """Return None if the end state is safe, else a (key, text) pair."""
    killed = r.sig == signal.SIGKILL
    s1 = st['input'] == 'intact' and st['output'] == 'absent'
    s2 = st['output'] == 'complete' and st['input'] in ('intact', 'missing')
    if st['extra']:
        return 'stray-file', 'unexpected files %s' % st['extra']
    if st['input'] == 'DAMAGED':
        return 'input-damaged', 'the input file was modified'
    if keep and st['input'] != 'intact':
        return 'input-removed-despite-k', 'input removed although -k was given'
    if not (s1 or s2):
        if killed and st['input'] == 'intact':
            return None             # SIGKILL: partial output may remain, input must be intact
        return 'unsafe-state', 'neither "input intact, no output" nor "output complete": %s' % st
    if r.timed_out:
        return None
    if r.sig is None:
        if r.rc == 0:
            if not s2:
                return 'exit0-without-output', 'exit 0 but the output is not complete'
            if not keep and st['input'] != 'missing' and kind != 'unlink':
                return 'exit0-input-left', 'exit 0 without -k but the input was not removed'
        elif r.rc not in (1, 4):
            return 'status-%d' % r.rc, 'unexpected exit status %d' % r.rc
    return None


def run(ctx):
    ctx.rule = ('FILE-operand runs (compress and decompress, with and without -k, 1 and 3 workers) under the LD_PRELOAD shim: a counting pass '
                'gives the number of open(output)/read/write/close/fchown/fchmod/futimens/unlink calls, then EVERY position of every kind is an '
                'injection point for an error and for SIGINT, SIGTERM, SIGKILL delivered just before and just after the call; plus signals sent '
                'from outside at seeded times; the end state is classified from file CONTENTS: S1 = input intact and no output, S2 = output '
                'complete (input removed or intact); anything else is a violation (after SIGKILL input intact + partial output is allowed); '
                'exit 0 requires S2 and the input removed unless -k; non-trivial = distinct (case, call kind, position, action) that fired')
    q = ctx.quick()
    rnd = ctx.rng('data')
    lb = core.build_lbzip2('plain')
    hook = core.build_lbzip2('hook')
    cases = []
    nfiles = 1 if q else 5
    for i in range(nfiles):
        plain = gen.textlike(rnd, rnd.choice([500000, 900000])) + gen.uniform(rnd, rnd.choice([200000, 400000]))
        comp = core.run([hook, '-1', '-n', '4'], stdin=plain, timeout=120).out
        for keep in (False, True):
            for w in ((1, 3) if i == 0 else (rnd.choice([1, 2, 3, 8]),)):
                cases.append(dict(direction='compress', args=['-1', '-n', str(w)] + (['-k'] if keep else []), inname='data', outname='data.bz2',
                                  indata=plain, outdata=comp, keep=keep, w=w))
                cases.append(dict(direction='decompress', args=['-d', '-n', str(w)] + (['-k'] if keep else []), inname='data.bz2', outname='data',
                                  indata=comp, outdata=plain, keep=keep, w=w))

    def execute(c, rule=None, outside=None):
        d = core.tmpdir()
        with open(os.path.join(d, c['inname']), 'wb') as f:
            f.write(c['indata'])
        os.chmod(os.path.join(d, c['inname']), 0o640)
        if outside is None:
            r, cnt = shim.run(lb, c['args'] + [c['inname']], rule=rule, cwd=d, timeout=120)
        else:
            sig, delay = outside
            p = subprocess.Popen([lb] + c['args'] + [c['inname']], cwd=d, stdout=subprocess.PIPE, stderr=subprocess.PIPE, stdin=subprocess.DEVNULL)
            time.sleep(delay)
            try:
                p.send_signal(sig)
            except ProcessLookupError:
                pass
            r = core.Res(); r.argv = [lb] + c['args'] + [c['inname']]
            try:
                out, err = p.communicate(timeout=120)
                r.out, r.err = out, err
                if p.returncode < 0:
                    r.sig = -p.returncode
                else:
                    r.rc = p.returncode
            except subprocess.TimeoutExpired:
                dead, dump = core.judge_hang(p.pid)
                r.timed_out = True; r.deadlock = dead; r.gdb = dump
                p.kill(); p.communicate()
            cnt = {'fired': 1}
        st = classify(d, c['inname'], c['outname'], c['indata'], c['outdata'])
        shutil.rmtree(d, ignore_errors=True)
        return r, cnt, st

    jobs = []
    for ci, c in enumerate(cases):
        r0, cnt, st = execute(c)
        ctx.ev()
        bad = verdict(st, r0, c['keep'], 'none', 'none')
        if r0.rc != 0 or bad:
            ctx.violation('baseline:' + (bad[0] if bad else 'status'), 'un-injected run ended %s with state %s' % (r0.status, st), None,
                          dict(argv=['lbzip2'] + c['args'] + [c['inname']], variant='plain'))
            continue
        c['counts'] = cnt
        for kind in shim.KINDS:
            n = cnt[kind]
            ctx.count('counted_%s_calls' % kind, n)
            for pos in range(1, n + 1):
                for en in ERRS[kind]:
                    jobs.append((ci, kind, pos, 'err', en))
                for sname, sig in SIGS:
                    for when in ('sigpre', 'sigpost'):
                        jobs.append((ci, kind, pos, when, sname))
    if q and len(jobs) > 2600:
        # keep every error injection and every position of the metadata calls; sample the signal positions of reads/writes
        keepj = [j for j in jobs if j[3] == 'err' or j[1] not in ('read', 'write')]
        rest = [j for j in jobs if not (j[3] == 'err' or j[1] not in ('read', 'write'))]
        rnd.shuffle(rest)
        jobs = keepj + rest[:max(0, 2600 - len(keepj))]
        ctx.extra['quick_tier_sampling'] = 'all error injections and all metadata-call positions; seeded sample of signal injections at read/write positions'
    else:
        ctx.exhaustive = True
    ctx.extra['exhaustive_scope'] = 'every counted call position x every action (thorough); see quick_tier_sampling for the quick tier'

    def one(j):
        ci, kind, pos, action, arg = j
        c = cases[ci]
        if action == 'err':
            rule = '%s:%d:err:%d' % (kind, pos, getattr(errno, arg))
        else:
            rule = '%s:%d:%s:%d' % (kind, pos, action, dict(SIGS)[arg])
        r, cnt, st = execute(c, rule=rule)
        ctx.ev()
        desc = dict(direction=c['direction'], keep=c['keep'], workers=c['w'], call=kind, position=pos, action=action, arg=arg,
                    outcome=r.status, state=dict(input=st['input'], output=st['output']))
        info = dict(desc, argv=['lbzip2'] + c['args'] + [c['inname']], env={'IOSHIM_RULE': rule}, variant='plain+ioshim',
                    stderr=r.err[:300].decode(errors='replace'))
        if cnt['fired'] < 1:
            ctx.count('injections_not_fired')
            return
        if r.timed_out:
            if r.deadlock:
                ctx.violation('deadlock:%s:%s' % (kind, action), 'hang after injection %s' % desc, {'gdb.txt': r.gdb}, info)
            else:
                ctx.inconcl('watchdog %s' % desc)
            return
        if r.sig in (signal.SIGABRT, signal.SIGSEGV):
            ctx.violation('crash:%s:%s' % (kind, action), 'crashed (%s) after injection %s: %r' % (r.status, desc, r.err[-200:]), None, info)
            return
        bad = verdict(st, r, c['keep'], action, kind)
        if bad:
            ctx.violation('%s:%s:%s:%s' % (bad[0], c['direction'], kind, action if action == 'err' else arg),
                          '%s after %s %s at %s #%d (%s%s, -n%d): ended %s, state %s'
                          % (bad[1], action, arg, kind, pos, c['direction'], ' -k' if c['keep'] else '', c['w'], r.status, st), None, info)
            return
        ctx.nt((ci, kind, pos, action, arg))
        ctx.count('fired:%s:%s' % (kind, action if action != 'err' else 'err'))
        ctx.count('end_state:%s:%s/%s' % (r.status if r.sig is None else 'sig', st['input'], st['output'].split('(')[0]))
        ctx.sample(desc, cap=8)
    core.pmap(one, jobs)

    # ---- several operands in one invocation: every operand must end in a safe state of its own, whatever happens to a later one
    if True:
        parts = [gen.textlike(rnd, 200000), gen.uniform(rnd, 150000), b'', gen.runs(rnd, 260000)] if not q else \
            [gen.textlike(rnd, 120000), b'', gen.uniform(rnd, 60000)]
        comps = [core.run([hook, '-1', '-n', '2'], stdin=p, timeout=120).out for p in parts]
        mcases = [dict(direction='compress', args=['-1', '-n', '2'], ins=parts, outs=comps, names=['m%d' % i for i in range(len(parts))], suffix=('', '.bz2')),
                  dict(direction='decompress', args=['-d', '-n', '3'], ins=comps, outs=parts, names=['m%d.bz2' % i for i in range(len(parts))], suffix=('.bz2', ''))]

        def mexec(mc, rule):
            d = core.tmpdir()
            for n, c in zip(mc['names'], mc['ins']):
                with open(os.path.join(d, n), 'wb') as f:
                    f.write(c)
            r, cnt = shim.run(lb, mc['args'] + mc['names'], rule=rule, cwd=d, timeout=180)
            sts = []
            for n, i_, o_ in zip(mc['names'], mc['ins'], mc['outs']):
                on = n + '.bz2' if mc['direction'] == 'compress' else n[:-4]
                sts.append(classify(d, n, on, i_, o_))
            names = sorted(os.listdir(d))
            shutil.rmtree(d, ignore_errors=True)
            return r, cnt, sts, names
        mjobs = []
        for mi, mc in enumerate(mcases):
            r0, cnt, sts, names = mexec(mc, None)
            ctx.ev()
            if r0.rc != 0:
                ctx.violation('baseline:multi', 'un-injected multi-operand run ended %s' % r0.status, None, dict(argv=['lbzip2'] + mc['args'] + mc['names']))
                continue
            for kind in shim.KINDS:
                for pos in range(1, cnt[kind] + 1):
                    if kind in ('read', 'write') and pos % (3 if not q else 2):
                        continue
                    for en in ERRS[kind][:1]:
                        mjobs.append((mi, kind, pos, 'err', en))
                    for sname, sig in SIGS:
                        mjobs.append((mi, kind, pos, rnd.choice(['sigpre', 'sigpost']), sname))

        def mone(j):
            mi, kind, pos, action, arg = j
            mc = mcases[mi]
            rule = '%s:%d:err:%d' % (kind, pos, getattr(errno, arg)) if action == 'err' else '%s:%d:%s:%d' % (kind, pos, action, dict(SIGS)[arg])
            r, cnt, sts, names = mexec(mc, rule)
            ctx.ev()
            if cnt['fired'] < 1:
                return
            desc = dict(direction=mc['direction'], operands=len(mc['names']), call=kind, position=pos, action=action, arg=arg, outcome=r.status,
                        states=[(s['input'], s['output'].split('(')[0]) for s in sts])
            info = dict(desc, argv=['lbzip2'] + mc['args'] + mc['names'], env={'IOSHIM_RULE': rule}, variant='plain+ioshim')
            if r.timed_out:
                if r.deadlock:
                    ctx.violation('deadlock:multi:%s' % kind, 'hang %s' % desc, {'gdb.txt': r.gdb}, info)
                else:
                    ctx.inconcl('watchdog %s' % desc)
                return
            inflight = 0
            for k, st in enumerate(sts):
                s1 = st['input'] == 'intact' and st['output'] == 'absent'
                s2 = st['output'] == 'complete' and st['input'] in ('intact', 'missing')
                if st['input'] == 'DAMAGED' or not (s1 or s2):
                    if r.sig == signal.SIGKILL and st['input'] == 'intact':
                        inflight += 1
                        continue
                    ctx.violation('unsafe-state:multi:%s:%s' % (mc['direction'], kind), 'operand %d of a multi-operand run ends unsafe: %s | %s' % (k, st, desc), None, info)
                    return
            if inflight > 1:
                ctx.violation('unsafe-state:multi:several-partial', 'more than one operand with partial output after SIGKILL: %s' % desc, None, info)
                return
            # operands after the first one that is not complete must be untouched
            seen_incomplete = False
            for st in sts:
                done = st['output'] == 'complete'
                if seen_incomplete and st['output'] != 'absent' and r.rc not in (0, 4):
                    ctx.violation('later-operand-touched:multi', 'an operand after the failing one was processed: %s' % desc, None, info)
                    return
                if not done:
                    seen_incomplete = True
            ctx.nt(('multi', mi, kind, pos, action, arg))
            ctx.count('multi_operand_injections')
        core.pmap(mone, mjobs)

    # signals from outside at seeded times
    outs = []
    for ci, c in enumerate(cases):
        for k in range(6 if q else 20):
            outs.append((ci, rnd.choice([signal.SIGINT, signal.SIGTERM, signal.SIGKILL]), rnd.choice([0, 0.001, 0.003, 0.006, 0.01, 0.02, 0.04, 0.08])))

    def outside(o):
        ci, sig, delay = o
        c = cases[ci]
        r, cnt, st = execute(c, outside=(sig, delay))
        ctx.ev()
        desc = dict(direction=c['direction'], keep=c['keep'], workers=c['w'], outside_signal=int(sig), delay_s=delay, outcome=r.status,
                    state=dict(input=st['input'], output=st['output']))
        if r.timed_out:
            if r.deadlock:
                ctx.violation('deadlock:outside-signal', 'hang after signal %s' % desc, {'gdb.txt': r.gdb}, desc)
            else:
                ctx.inconcl('watchdog %s' % desc)
            return
        bad = verdict(st, r, c['keep'], 'outside', 'outside')
        if bad:
            ctx.violation('%s:%s:outside-signal-%d' % (bad[0], c['direction'], sig), '%s after signal %d sent %.3fs into the run: ended %s, state %s'
                          % (bad[1], sig, delay, r.status, st), None, dict(desc, argv=['lbzip2'] + c['args'] + [c['inname']]))
            return
        ctx.nt((ci, 'outside', int(sig), delay))
        ctx.count('outside_signal_runs')
        ctx.count('outside_end_state:%s:%s/%s' % (r.status if r.sig is None else 'sig', st['input'], st['output'].split('(')[0]))
    core.pmap(outside, outs)
    ctx.assumptions = ['data-safety states are judged strictly; exit 1 / signal death may come with either safe state (signals blocked between '
                       'cli() and sti() are delivered after the operand is complete), see DESIGN 4.C16']
