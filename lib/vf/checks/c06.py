"""C06 Every conforming bzip2 file is decompressed."""
import hashlib
from .. import core, ora, lbz, dcorpus, defects, bzsynth as bs

LEVEL = 'exploration'


def judge(ctx, lb, item):
    name, data, plain, feat = item
    for w in feat.get('workers', [1, 4]):
        env = feat.get('env', {})
        argv = [lb, '-d', '-n', str(w)]
        r = core.run(argv, stdin=data, env=env, timeout=300)
        ctx.ev()
        files = {'input.bz2': data[:3000000]}
        info = dict(origin=name, argv=argv, env=env, features=feat.get('opts'))
        if lbz.bad_ending(ctx, r, 'decompress %s' % name, files, info):
            return
        if r.rc != 0:
            ctx.violation('rejected-valid:' + name.split(':')[0].split('-')[0], 'lbzip2 -d -n%d rejected a conforming stream (%s): %s'
                          % (w, name, r.err[:200].decode(errors='replace')), files, info)
            return
        if r.out != plain:
            ctx.violation('wrong-bytes:' + name.split(':')[0].split('-')[0], 'lbzip2 -d -n%d decoded %s to %d bytes, expected %d'
                          % (w, name, len(r.out), len(plain)), dict(files, **{'expected.bin': plain[:2000000]}), info)
            return
        if r.err:
            ctx.violation('stderr-noise', 'lbzip2 -d printed on stderr for a valid stream %s: %r' % (name, r.err[:200]), files, info)
            return
    ctx.nt(hashlib.sha1(data).hexdigest())
    ctx.count('source:' + name.split(':')[0].split('-')[0])
    for o in feat.get('opts') or []:
        ctx.count('feature:' + o)
    ctx.sample(dict(origin=name, compressed=len(data), plain=len(plain), features=feat.get('opts')), cap=8)


def run(ctx):
    ctx.rule = ('streams known valid (generator-known plaintext; accepted with those bytes by refbz and libbz2): libbz2 output levels 1-9, '
                'bzip2-0.1pl2 output (randomised blocks), synthesized streams varying tables/delta paths/selectors/surplus selectors/'
                'rand bit/primary index/bit alignment/concatenation/trailing data, repo test vectors; each decoded at several worker '
                'counts and schedule perturbations; non-trivial = distinct stream decoded correctly at all its worker counts')
    q = ctx.quick()
    rnd = ctx.rng('inputs')
    lb = core.build_lbzip2('hook')
    items = []
    wsets = [[1, 2], [1, 4], [2, 8], [1, 3], [4], [1]]
    for i in range(260 if q else 6000):
        data, plain, opts = dcorpus.synth_valid(rnd)
        items.append(('synth', data, plain, dict(opts=opts, workers=rnd.choice(wsets), env=lbz.sched_env(rnd) if rnd.random() < 0.3 else {})))
    for i in range(60 if q else 1500):
        name, d, plain = dcorpus.third_party(rnd, maxsize=500000 if q else 2500000)
        okl, outl, why = ora.libbz2(d)
        if not okl or outl != plain:
            ctx.harness_error('third-party encoder output not accepted by libbz2: ' + name)
            continue
        items.append((name, d, plain, dict(workers=rnd.choice(wsets), env=lbz.sched_env(rnd) if rnd.random() < 0.3 else {})))
    for i in range(30 if q else 600):
        data = bs.build([bs.Stream(rnd.randint(1, 9), [bs.maxlen_block(rnd, 9)])])
        v, info, out = ora.refbz(data)
        if v == 'VALID':
            items.append(('synth:maxlen-groups', data, out, dict(opts=['maxlen'], workers=rnd.choice(wsets),
                                                               env={'LBZIP2_VERIF_IN_GRANUL': str(4 * rnd.randrange(32, 700))})))
    for i in range(12 if q else 250):
        name, d, plain = dcorpus.concat_levels(rnd, lb)
        items.append((name, d, plain, dict(opts=['concat-levels'], workers=rnd.choice(wsets))))
    # special corners
    for level in ([1, 9] if q else range(1, 10)):
        nb = level * 100000
        b = defects.big_run_block(rnd, nb, byte=rnd.choice([0, 1, 5, 255]))
        b.orig = nb - 1
        data = bs.build([bs.Stream(level, [b])])
        v, info, out = ora.refbz(data)
        if v == 'VALID':
            items.append(('synth:full-capacity-orig-max-l%d' % level, data, out, dict(opts=['capacity', 'maxorig'], workers=[1, 2])))
    for i in range(4 if q else 40):
        # many concatenated streams of different levels incl. empty ones
        sts = [bs.rand_stream(rnd, nblocks=rnd.choice([0, 1, 2])) for _ in range(rnd.randint(4, 12))]
        data = bs.build(sts)
        v, info, out = ora.refbz(data)
        if v == 'VALID':
            items.append(('synth:concat%d' % len(sts), data, out, dict(opts=['concat'], workers=[1, 3, 8])))
    for p in dcorpus.repo_valid_files():
        with open(p, 'rb') as f:
            d = f.read()
        v, info, out = ora.refbz(d)
        okl, outl, why = ora.libbz2(d)
        if v == 'VALID' and okl and outl == out:
            items.append(('repo:' + p.split('/')[-1], d, out, dict(workers=[1, 2, 4, 8])))
        else:
            ctx.count('repo_files_not_clean_valid')
    core.pmap(lambda it: judge(ctx, lb, it), items)
    ctx.assumptions = ['a stream is "conforming" when the strict reference accepts it (and libbz2 for third-party streams)']
