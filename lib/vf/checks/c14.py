"""C14 Block-header scanner matches exactly the header pattern."""
from .. import core, lbz

LEVEL = 'exploration'
PAT = format(0x314159265359, '048b')


def kmp_delta():
    """Bit-level KMP automaton of the 48-bit pattern, computed from scratch."""
    d = []
    for s in range(48):
        row = []
        for b in '01':
            t = PAT[:s] + b
            k = min(len(t), 48)
            while k > 0 and t[len(t) - k:] != PAT[:k]:
                k -= 1
            row.append(k)
        d.append(row)
    return d


def run(ctx):
    ctx.rule = ('tables: all 48x2 bit transitions and 49x256 byte transitions dumped from the real scantab.h (via the harness) are compared with '
                'an independently recomputed KMP automaton of 0x314159265359 (exhaustive); scan(): seeded bit strings (random, all-0, all-1, '
                'pattern planted at every offset 0..95 and elsewhere, one-bit near misses, overlapping plants, < 32 following bits) x start '
                'offsets 0..63 / anywhere x skip 0..200, chained calls; oracle = naive bit search; non-trivial = distinct table entries '
                'compared plus scan() calls that returned a hit')
    flags = ['-O1', '-g', '-fsanitize=address,undefined', '-fno-sanitize-recover=all']
    exe = core.build_harness('parse_h', 'parse_h.c', flags)
    env = {'ASAN_OPTIONS': 'detect_leaks=0'}
    r = core.run([exe, 'tables'], env=env, timeout=120)
    if r.rc != 0:
        raise core.HarnessError('parse_h tables failed: %s' % r.err[-300:])
    mini = {}
    big = {}
    accept = None
    for line in r.out.decode().split('\n'):
        f = line.split()
        if not f:
            continue
        if f[0] == 'MINI':
            mini[(int(f[1]), 0)] = int(f[2]); mini[(int(f[1]), 1)] = int(f[3])
        elif f[0] == 'BIG':
            big[(int(f[1]), int(f[2]))] = int(f[3])
        elif f[0] == 'ACCEPT':
            accept = int(f[1])
    delta = kmp_delta()
    nstates_mini = len(set(k[0] for k in mini))
    nstates_big = len(set(k[0] for k in big))
    ctx.extra['table_shape'] = dict(mini_states=nstates_mini, big_states=nstates_big, accept=accept)
    if accept != 48 or nstates_mini < 48 or nstates_big < 49:
        ctx.violation('tables:shape', 'unexpected automaton shape: accept=%s mini=%d big=%d' % (accept, nstates_mini, nstates_big))
    bad = 0
    for s in range(48):
        for b in (0, 1):
            ctx.ev()
            want = delta[s][b]
            got = mini.get((s, b))
            if got != want:
                bad += 1
                ctx.violation('tables:mini', 'mini_dfa[%d][%d] = %s, recomputed automaton says %d' % (s, b, got, want), None,
                              dict(state=s, bit=b, got=got, want=want))
            else:
                ctx.nt(('mini', s, b))
    for s in range(49):
        for byte in range(256):
            ctx.ev()
            t = s
            for i in range(8):
                if t == 48:
                    break
                t = delta[t][(byte >> (7 - i)) & 1]
            got = big.get((s, byte))
            if got != t:
                bad += 1
                if bad < 6:
                    ctx.violation('tables:big', 'big_dfa[%d][0x%02x] = %s, recomputed automaton says %d' % (s, byte, got, t), None,
                                  dict(state=s, byte=byte, got=got, want=t))
                else:
                    ctx.violations += 1
            else:
                ctx.nt(('big', s, byte))
    ctx.count('table_entries_compared', 48 * 2 + 49 * 256)
    ctx.exhaustive = True
    ctx.extra['exhaustive_scope'] = 'all mini_dfa and big_dfa entries; scan() calls are seeded samples'
    per = 200000 if ctx.quick() else 1300000

    def shard(k):
        return core.run([exe, 'scan', str(per), str(ctx.seed * 31 + k)], env=env, timeout=3000)
    for r in core.pmap(shard, range(16)):
        if r.rc != 0:
            if not lbz.bad_ending(ctx, r, 'parse_h scan', None, dict(argv=r.argv), 'scan:'):
                ctx.violation('scan:sanitizer-or-crash', 'parse_h ended %s: %s' % (r.status, r.err[-400:].decode(errors='replace')),
                              {'stderr.txt': r.err}, dict(argv=r.argv))
            continue
        summ = {}
        for line in r.out.decode().split('\n'):
            if line.startswith('MISMATCH'):
                ctx.violation('scan:' + line.split()[1], line[:600], {'case.txt': line}, dict(argv=r.argv))
            if line.startswith('SUMMARY'):
                summ = dict((kv.split('=')[0], int(kv.split('=')[1])) for kv in line.split()[1:])
        ctx.ev(summ.get('calls', 0))
        for k in ('calls', 'hits', 'more', 'chained', 'skipcalls', 'truncated_hits'):
            ctx.count('scan_' + k, summ.get(k, 0))
    ctx.sample(dict(pattern='0x314159265359', mini_dfa_row_0=[mini.get((0, 0)), mini.get((0, 1))], big_dfa_0_0x31=big.get((0, 0x31))))
    ctx.assumptions = ['the skip hint may be ignored by scan(): a hit between start and start+skip is allowed (DESIGN 4.C14)']
