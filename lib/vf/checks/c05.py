"""C05 Decompression never accepts malformed data or emits wrong bytes."""
import hashlib
from .. import core, ora, lbz, defects, dcorpus, bzsynth as bs

LEVEL = 'exploration'


def judge(ctx, lb, item):
    data, origin = item
    h = (len(data) * 7 + len(origin)) % 4
    w = [1, 2, 4, 3][h]
    argv = [lb, '-d', '-n', str(w)]
    verdict, inf, refout = ora.refbz(data)
    reason = inf['reason'] if verdict == 'INVALID' else (inf['exception'] or 'ok')
    env = {}
    hh = (len(data) * 13 + sum(data[:64])) % 5
    if len(data) < 20000 and len(refout) < 30000 and hh < 3:
        # buffer boundaries everywhere: resumed decoder states must enforce the same rules as the straight-line code
        env['LBZIP2_VERIF_OUT_GRANUL'] = str([1, 2, 3, 5, 7, 64, 4096][(len(data) + hh) % 7])
        env['LBZIP2_VERIF_IN_GRANUL'] = str([4, 8, 16, 64, 128, 256, 4096][(len(data) * 3 + hh) % 7])
    r = core.run(argv, stdin=data, env=env, timeout=120)
    ctx.ev()
    files = {'input.bz2': data}
    info = dict(origin=origin, argv=argv, workers=w, env=env)
    ctx.count('ref_%s' % verdict.lower())
    if env:
        ctx.count('runs_with_tiny_granules')
    if verdict == 'INVALID':
        ctx.count('reject_reason:' + reason)
        if not (reason == 'bad stream magic' and inf['at_bit'] == 0):
            ctx.nt(hashlib.sha1(data).hexdigest())
    if lbz.bad_ending(ctx, r, 'decompress %s' % origin, files, info):
        return
    if r.rc != 0:
        return              # reject direction is C07's business
    ctx.count('accepted_by_lbzip2')
    okl, outl, why = ora.libbz2(data)
    if verdict != 'VALID' and not okl:
        # refbz INVALID, or the "missing run length" exception, which libbz2 1.0.x rejects as well
        why2 = reason if verdict == 'INVALID' else inf['exception']
        ctx.violation('accepted-invalid:' + why2.replace(' ', '-'),
                      'lbzip2 -d exit 0 on input both oracles reject (refbz: %s %s at bit %d; %s); origin %s env %s'
                      % (verdict, why2, inf['at_bit'], why, origin, env), files, info)
        return
    if verdict == 'INVALID' or not okl:
        ctx.inconcl('oracles disagree: refbz %s/%s libbz2 %s (%s) origin %s' % (verdict, reason, okl, why, origin))
        return
    if refout != outl:
        ctx.inconcl('oracles give different bytes, origin %s' % origin)
        return
    if r.out != refout:
        ctx.violation('wrong-bytes', 'lbzip2 -d exit 0 but bytes differ from the reference decoding (%d vs %d bytes); origin %s'
                      % (len(r.out), len(refout), origin), dict(files, **{'expected.bin': refout[:2000000], 'got.bin': r.out[:2000000]}), info)
        return
    ctx.sample(dict(origin=origin, size=len(data), ref=verdict, lbzip2='exit0 bytes equal'), cap=3)


def run(ctx):
    ctx.rule = ('inputs: synthesized streams valid except for one crafted defect (each kind x block position x alignments), '
                'field-aware and byte-level mutants of lbzip2/libbz2/0.1pl2/synthesized/repo-test streams, truncations; oracle pair '
                'refbz+libbz2 judges only accepted inputs; non-trivial = distinct input whose reference verdict is INVALID for a '
                'reason other than bad magic at offset 0')
    q = ctx.quick()
    rnd = ctx.rng('inputs')
    lb = core.build_lbzip2('hook')
    items = []
    per_kind = 40 if q else 350
    for kind in defects.DEFECTS:
        for i in range(per_kind):
            try:
                data, k = defects.make(rnd, kind)
            except core.HarnessError:
                raise
            except Exception as e:
                ctx.count('generator_failures')
                continue
            items.append((data, 'defect:' + kind))
            ctx.count('generated:' + kind)
    # mutants of valid streams
    bases = []
    for i in range(12 if q else 100):
        d, plain, o = dcorpus.synth_valid(rnd)
        bases.append((d, 'synth'))
    for i in range(8 if q else 80):
        name, d, plain = dcorpus.third_party(rnd, maxsize=30000)
        bases.append((d, name))
    for p in dcorpus.repo_all_files():
        with open(p, 'rb') as f:
            d = f.read()
        if len(d) < 200000:
            bases.append((d, 'repo:' + p.split('/')[-1]))
    nmut = 60 if q else 400
    for d, name in bases:
        v, info, _ = ora.refbz(d, want_out=False)
        for m, what in defects.field_mutants(rnd, d, info, nmut // 2):
            items.append((m, '%s:%s' % (name, what)))
        for _ in range(nmut // 2):
            items.append((bs.byte_mutate(rnd, d), name + ':bytemut'))
        for _ in range(6 if q else 40):
            items.append((d[:rnd.randrange(len(d) + 1)], name + ':trunc'))
        items.append((d, name + ':intact'))
    rnd.shuffle(items)
    core.pmap(lambda it: judge(ctx, lb, it), items)
    ctx.assumptions = ['an accept-side violation needs refbz AND libbz2 to call the input invalid (or agree on different bytes)',
                       'strict rules as listed in native/refbz.c']
