"""C08 No undefined behaviour for any input."""
import hashlib, os, re, shutil
from .. import core, gen, lbz, ora, dcorpus, defects, inproc, streams, bzsynth as bs

LEVEL = 'exploration'
SAN_ENV = {'ASAN_OPTIONS': 'detect_leaks=0:abort_on_error=0:exitcode=98:quarantine_size_mb=16',
           'UBSAN_OPTIONS': 'print_stacktrace=1:exitcode=98', 'MSAN_OPTIONS': 'exitcode=98'}
REPORT = re.compile(rb'(ERROR: AddressSanitizer[^\n]*|runtime error:[^\n]*|WARNING: MemorySanitizer[^\n]*|ERROR: LeakSanitizer[^\n]*)')


def report_key(err):
    m = REPORT.search(err)
    if not m:
        return None
    head = m.group(1).decode(errors='replace')
    kind = re.sub(r'0x[0-9a-f]+', 'ADDR', head)
    kind = re.sub(r'\d+', 'N', kind)[:80]
    frames = re.findall(rb'#\d+ 0x[0-9a-f]+ in (\w+)', err)
    frames = [f.decode() for f in frames if not f.startswith(b'__') and f not in (b'malloc', b'free')][:3]
    return kind.replace(' ', '-') + ':' + '|'.join(frames)


def san_run(ctx, exe, args, what, stdin=None, env=None, files=None, variant='asan', cwd=None, timeout=400):
    e = dict(SAN_ENV)
    if env:
        e.update(env)
    r = core.run([exe] + args, stdin=stdin, env=e, timeout=timeout, cwd=cwd)
    ctx.ev()
    key = report_key(r.err)
    info = dict(what=what, argv=['lbzip2' if os.path.basename(exe) == 'lbzip2' else exe] + args, env=env or {}, variant=variant)
    f = dict(files or {})
    if key:
        ctx.violation('sanitizer:' + key, 'sanitizer report (%s): %s' % (what, REPORT.search(r.err).group(1).decode(errors='replace')[:200]),
                      dict(f, **{'sanitizer_report.txt': r.err[-30000:]}), info)
        return None
    if lbz.bad_ending(ctx, r, what, f, info):
        return None
    return r


def run(ctx):
    ctx.rule = ('(1) whole program under gcc ASan+UBSan and under clang MSan (hooks on): compression of generated inputs and decompression of valid, single-defect, '
                'mutated, planted-candidate and follower streams at 1-8 workers with granule overrides and perturbation; (2) in-process codec '
                'harness (collect/encode/transmit/retrieve/decode/emit) under ASan+UBSan and clang MSan, and the decoder harness dec_h '
                '(parse/retrieve/decode/emit with stepped input, tiny output buffers) on the same stream corpus under ASan+UBSan and MSan; '
                '(3) valgrind memcheck on the plain binary for a sample; thorough: libFuzzer on dec_h and codec_h; any report is a violation; '
                'non-trivial = distinct (input, configuration) executed under a sanitizer')
    q = ctx.quick()
    rnd = ctx.rng('cases')
    asan = core.build_lbzip2('asan')
    # ---- corpus of compressed inputs
    streams_c = []
    for i in range(40 if q else 1200):
        d, plain, o = dcorpus.synth_valid(rnd)
        streams_c.append(('synth', d))
    for kind in defects.DEFECTS:
        for i in range(6 if q else 150):
            try:
                streams_c.append(('defect:' + kind, defects.make(rnd, kind)[0]))
            except core.HarnessError:
                raise
            except Exception:
                pass
    bases = [s for s in streams_c[:20]]
    for p in dcorpus.repo_all_files():
        with open(p, 'rb') as f:
            d = f.read()
        streams_c.append(('repo:' + p.split('/')[-1], d))
        if len(d) < 50000:
            bases.append(('repo', d))
    for name, d in bases:
        for _ in range(8 if q else 150):
            streams_c.append(('mutant', bs.byte_mutate(rnd, d)))
        streams_c.append(('trunc', d[:rnd.randrange(len(d) + 1)]))
    for i in range(3 if q else 40):
        pieces = [bs.MAGIC_BYTES + rnd.randbytes(6).replace(b'\xff', b'\1') for _ in range(rnd.choice([20, 120]))]
        streams_c.append(('flood', bs.build([bs.Stream(9, [bs.plant_block(rnd, pieces, filler=30)])])))
    maxlen = [bs.build([bs.Stream(9, [bs.maxlen_block(rnd, 9)])]) for _ in range(10 if q else 200)]
    for d in maxlen:
        streams_c.append(('maxlen-groups', d))
    fol = dcorpus.follower_stream(rnd, 2000, 30000)[0]
    # ---- (1) whole program
    jobs = []
    for name, d in streams_c:
        if len(d) > 400000 and q:
            continue
        env = lbz.sched_env(rnd) if rnd.random() < 0.3 else {}
        if rnd.random() < 0.5:
            env['LBZIP2_VERIF_IN_GRANUL'] = str(rnd.choice([64, 1024, 65536]))
            env['LBZIP2_VERIF_OUT_GRANUL'] = str(rnd.choice([5000, 65536, 900000]))
        jobs.append(('decompress ' + name, ['-d', '-n', str(rnd.choice([1, 2, 4, 8]))], d, env))
    for d in maxlen:
        for k in range(4):
            jobs.append(('decompress maxlen-groups', ['-d', '-n', str(rnd.choice([1, 2, 4]))], d,
                         {'LBZIP2_VERIF_IN_GRANUL': str(4 * rnd.randrange(32, 700))}))
    for i in range(6 if q else 100):
        jobs.append(('decompress follower', ['-d', '-n', str(rnd.choice([2, 3, 4]))], fol,
                     {'LBZIP2_VERIF_SCHED': '%d:straggler:40' % rnd.randrange(1, 1 << 30), 'LBZIP2_VERIF_IN_GRANUL': str(rnd.choice([1024, 4096]))}))
    for c in [c for c in streams.compress_cases(ctx, 50 if q else 1500, 60 if q else 1500, nbig=1 if q else 12, maxsize=500000 if q else 3000000) if not c.get('gen')]:
        jobs.append(('compress ' + c['fam'], ['-%d' % c['level'], '-n', str(c['w'])] + (['-u'] if c['ultra'] else []), c['data'], c['env']))
    for i in range(8 if q else 120):
        # slow head block with many cheap blocks behind it: compression-side queues at their limits
        w = rnd.choice([2, 3, 4])
        d = rnd.randbytes(100000) + bytes(100000) * (2 * w + rnd.randint(2, 6))
        jobs.append(('compress head-held-back', ['-1', '-n', str(w)], d,
                     {'LBZIP2_VERIF_SCHED': '%d:holdblock:%d' % (3 * rnd.randrange(1, 1 << 20), rnd.choice([100, 300]))}))
    for i in range(6 if q else 60):
        jobs.append(('copy', ['-cdf', '-n', '2'], rnd.randbytes(rnd.choice([0, 2, 65536, 200001])), {}))

    def whole(j):
        what, args, data, env = j
        r = san_run(ctx, asan, args, what, stdin=data, env=env, files={'stdin.bin': data[:2000000]})
        if r is not None:
            ctx.nt((hashlib.sha1(data).hexdigest()[:12], tuple(args), repr(sorted(env.items()))))
            ctx.count('asan_whole_program_' + what.split()[0])
    core.pmap(whole, jobs)
    # the same whole-program jobs (a seeded half) under clang MemorySanitizer: decisions on uninitialised memory
    # anywhere in the program, including option handling, scheduler and I/O code
    msan = core.build_lbzip2('msan')

    def whole_msan(j):
        what, args, data, env = j
        r = san_run(ctx, msan, args, what + ' [msan]', stdin=data, env=env, files={'stdin.bin': data[:2000000]}, variant='msan')
        if r is not None:
            ctx.nt((hashlib.sha1(data).hexdigest()[:12], tuple(args), repr(sorted(env.items())), 'msan'))
            ctx.count('msan_whole_program_' + what.split()[0])
    core.pmap(whole_msan, [j for k, j in enumerate(jobs) if k % 2 == 0 and len(j[2]) < 1500000])
    ctx.sample(dict(what=jobs[0][0], args=jobs[0][1], env=jobs[0][3], size=len(jobs[0][2])))
    # ---- (2) in-process codec harness
    for flavour in ('asan', 'msan'):
        per = (60 if q else 2500) if flavour == 'asan' else (25 if q else 800)

        def shard(k, flavour=flavour, per=per):
            return inproc.run_codec(flavour, ['rnd', per, ctx.seed * 4409 + k + (1000 if flavour == 'msan' else 0), 2000, 1], timeout=3000)
        for r, summ, mism in core.pmap(shard, range(16)):
            key = report_key(r.err)
            if key:
                ctx.violation('sanitizer:inproc-%s:%s' % (flavour, key), 'codec_h under %s: %s' % (flavour, REPORT.search(r.err).group(1).decode(errors='replace')[:200]),
                              {'sanitizer_report.txt': r.err[-30000:]}, dict(argv=r.argv))
                continue
            if r.rc != 0 or not summ:
                if not lbz.bad_ending(ctx, r, 'codec_h ' + flavour, None, dict(argv=r.argv), 'inproc:'):
                    ctx.harness_error('codec_h %s failed: %s %s' % (flavour, r.status, r.err[-300:]))
                continue
            ctx.ev(summ['cases'])
            ctx.count('inproc_%s_codec_cases' % flavour, summ['cases'])
            ctx.count('inproc_%s_codec_blocks' % flavour, summ['blocks'])
    # decoder harness on the stream corpus
    d = core.tmpdir()
    paths = []
    for i, (name, data) in enumerate(streams_c):
        if len(data) > 300000:
            continue
        p = os.path.join(d, 'c%05d' % i)
        with open(p, 'wb') as f:
            f.write(bytes([rnd.randrange(256)]) + data)
        paths.append(p)
    for flavour in ('asan', 'msan'):
        cc, flags = inproc.FLAVOURS[flavour]
        exe = core.build_harness('dec_h_' + flavour, 'dec_h.c', flags, cc=cc, link_repo=['decode.c', 'parse.c', 'crctab.c'])
        batches = [paths[i::16] for i in range(16)]

        def batch(b, exe=exe, flavour=flavour):
            if not b:
                return
            r = core.run([exe] + b, env=SAN_ENV, timeout=3000)
            key = report_key(r.err)
            if key:
                ctx.violation('sanitizer:dec_h-%s:%s' % (flavour, key), 'dec_h under %s: %s' % (flavour, REPORT.search(r.err).group(1).decode(errors='replace')[:200]),
                              {'sanitizer_report.txt': r.err[-30000:]}, dict(argv=r.argv[:3]))
                return
            if r.rc != 0:
                if not lbz.bad_ending(ctx, r, 'dec_h ' + flavour, None, dict(argv=r.argv[:3]), 'inproc:'):
                    ctx.harness_error('dec_h %s failed: %s %s' % (flavour, r.status, r.err[-300:]))
                return
            n = r.out.count(b'\nR ') + (1 if r.out.startswith(b'R ') else 0)
            ctx.ev(n)
            ctx.count('inproc_%s_decoder_cases' % flavour, n)
            outcomes = set(re.findall(rb'R (-?\d+)\d\d\d ', r.out))
            for o in outcomes:
                ctx.nt(('dec_h', flavour, o))
        core.pmap(batch, batches)
    shutil.rmtree(d, ignore_errors=True)
    # ---- (3) memcheck sample
    plain = core.build_lbzip2('plain')
    mc = []
    for i in range(4 if q else 60):
        mc.append((['-1', '-n', '2'], gen.textlike(rnd, 60000) + gen.runs(rnd, 50000)))
        name, dd = rnd.choice(streams_c)
        mc.append((['-d', '-n', '2'], dd[:200000]))

    def memcheck(j):
        args, data = j
        r = core.run(['valgrind', '--tool=memcheck', '-q', '--error-exitcode=97', plain] + args, stdin=data, timeout=1200)
        ctx.ev()
        if r.rc == 97 or b'Invalid read' in r.err or b'Invalid write' in r.err or b'uninitialised' in r.err:
            fr = re.findall(rb'(?:at|by) 0x[0-9A-F]+: (\w+)', r.err)[:3]
            ctx.violation('memcheck:' + '|'.join(f.decode() for f in fr), 'valgrind memcheck report: ' + r.err[:300].decode(errors='replace'),
                          {'stdin.bin': data, 'memcheck.txt': r.err[-20000:]}, dict(argv=['lbzip2'] + args, variant='plain'))
            return
        ctx.count('memcheck_runs')
    core.pmap(memcheck, mc)
    # ---- (4) libFuzzer (thorough)
    if not q:
        fz = ['-O1', '-g', '-fsanitize=fuzzer,address,undefined', '-fno-sanitize-recover=all', '-DFUZZ']
        fexe = core.build_harness('fuzz_dec', 'dec_h.c', fz, cc='clang', link_repo=['decode.c', 'parse.c', 'crctab.c'])
        corp = core.tmpdir()
        for i, (name, data) in enumerate(streams_c[:800]):
            if len(data) < 20000:
                with open(os.path.join(corp, 's%05d' % i), 'wb') as f:
                    f.write(bytes([rnd.randrange(256)]) + data)

        def fuzz(k):
            art = core.tmpdir()
            work = core.tmpdir()
            r = core.run([fexe, '-seed=%d' % (ctx.seed * 100 + k + 1), '-runs=%d' % 60000, '-max_len=20000', '-rss_limit_mb=6000',
                          '-artifact_prefix=' + art + '/', '-print_final_stats=1', work, corp],
                         env={'ASAN_OPTIONS': 'detect_leaks=0:quarantine_size_mb=8'}, timeout=3000)
            ctx.ev(60000)
            m = re.search(rb'stat::number_of_executed_units: (\d+)', r.err)
            ctx.count('libfuzzer_dec_executions', int(m.group(1)) if m else 0)
            arts = os.listdir(art)
            key = report_key(r.err)
            if arts or key:
                data = open(os.path.join(art, arts[0]), 'rb').read() if arts else b''
                ctx.violation('fuzz:' + (key or 'crash'), 'libFuzzer found a failing input for dec_h: %s' % (key,),
                              {'case.bin': data, 'fuzzer_log.txt': r.err[-30000:]}, dict(argv=r.argv[:4]))
            shutil.rmtree(art, ignore_errors=True); shutil.rmtree(work, ignore_errors=True)
        core.pmap(fuzz, range(10))
        shutil.rmtree(corp, ignore_errors=True)
        # encoder side: collect/encode/transmit -> retrieve/decode/emit with the packing-model and round-trip oracles
        cexe = core.build_harness('fuzz_codec', 'codec_h.c', fz, cc='clang', link_repo=['decode.c', 'crctab.c', 'divbwt.c'])

        def fuzz_codec(k):
            art = core.tmpdir(); work = core.tmpdir()
            r = core.run([cexe, '-seed=%d' % (ctx.seed * 100 + 50 + k), '-runs=%d' % 40000, '-max_len=6000', '-rss_limit_mb=6000',
                          '-artifact_prefix=' + art + '/', '-print_final_stats=1', work],
                         env={'ASAN_OPTIONS': 'detect_leaks=0:quarantine_size_mb=8'}, timeout=3000)
            ctx.ev(40000)
            m = re.search(rb'stat::number_of_executed_units: (\d+)', r.err)
            ctx.count('libfuzzer_codec_executions', int(m.group(1)) if m else 0)
            arts = os.listdir(art)
            key = report_key(r.err)
            if arts or key:
                data = open(os.path.join(art, arts[0]), 'rb').read() if arts else b''
                ctx.violation('fuzz-codec:' + (key or 'oracle-mismatch'), 'libFuzzer found a failing input for codec_h: %s %s' % (key, r.out[-300:]),
                              {'case.bin': data, 'fuzzer_log.txt': r.err[-30000:]}, dict(argv=r.argv[:4]))
            shutil.rmtree(art, ignore_errors=True); shutil.rmtree(work, ignore_errors=True)
        core.pmap(fuzz_codec, range(6))
    ctx.assumptions = ['red-zone and shadow-memory tools miss non-adjacent and intra-object overflows; "held" means no report on these executions']
