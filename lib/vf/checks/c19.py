"""C19 -cdf passes non-bzip2 data through unchanged."""
import hashlib, os, shutil
from .. import core, lbz, dcorpus, gen

LEVEL = 'exploration'


def is_header(d):
    return len(d) >= 4 and d[:3] == b'BZh' and 0x31 <= d[3] <= 0x39


def run(ctx):
    ctx.rule = ('lbzip2 -cdf on generated inputs: sizes 0-5, around 64 KiB and 128 KiB buffer boundaries, multi-MB; first bytes drawn from '
                'prefixes of the magic, wrong digits (BZh0, BZh:), random; delivered as file stdin, pipe in seeded fragments (1 B..70 KB with '
                'pauses), LD_PRELOAD short reads/writes, throttled stdout, FILE operands with -c, several operands; non-header input must be '
                'copied byte-for-byte with status 0; header input must behave exactly as lbzip2 -dc; non-trivial = distinct (input, delivery)')
    q = ctx.quick()
    rnd = ctx.rng('cases')
    lb = core.build_lbzip2('hook')
    shim = core.build_native('ioshim')
    sizes = [0, 1, 2, 3, 4, 5, 100, 65535, 65536, 65537, 131071, 131072, 131073, 196608, 200001]
    if not q:
        sizes += [262144, 1 << 20, 3000001, 8 << 20]
    prefixes = [b'', b'B', b'BZ', b'BZh', b'BZh0', b'BZh:', b'BZh/', b'bzh9', b'BZH9', b'\0BZh9', b'BZi9', b'PK\3\4', b'\x1f\x8b']
    inputs = []
    for n in sizes:
        for k in range(6 if q else 12):
            p = rnd.choice(prefixes)
            body = rnd.randbytes(max(0, n - len(p))) if rnd.random() < 0.7 else gen.textlike(rnd, max(0, n - len(p)))
            d = (p + body)[:n] if n >= len(p) else p[:n]
            inputs.append(('non-bzip2 size=%d prefix=%r' % (n, p[:n]), d))
    for p in prefixes:
        inputs.append(('just-prefix %r' % p, p))
    for i in range(4 if q else 40):
        inputs.append(('header+garbage', b'BZh' + bytes([0x31 + rnd.randrange(9)]) + rnd.randbytes(rnd.choice([0, 1, 10, 70000]))))
    for i in range(4 if q else 40):
        data, plain, o = dcorpus.synth_valid(rnd)
        inputs.append(('valid-stream', data))
    jobs = []
    for name, d in inputs:
        for k in range(5 if q else 10):
            mode = rnd.choice(['file', 'pipe', 'pipe', 'short', 'operand', 'throttled'])
            jobs.append((name, d, mode, lbz.feed_pattern(rnd) or ([rnd.choice([1, 3, 4, 5, 65535, 65536, 65537, 70000])], rnd.choice([0, 0, 0.001])),
                         rnd.choice([1, 2, 4]), rnd.randrange(1, 1 << 30), lbz.sched_env(rnd) if rnd.random() < 0.6 else {}))

    def deliver(args, d, mode, feed, seed, env):
        env = dict(env)
        if len(d) > 300000 and feed[0] == [1]:
            feed = ([4099], 0)
        if len(d) > 100000 and min(feed[0]) < 50:
            feed = ([max(x, 997) for x in feed[0]], 0)
        if feed[1] and len(d) / (sum(feed[0]) / len(feed[0])) > 1500:
            feed = (feed[0], 0)
        if mode == 'file':
            p = core.tmppath('.in')
            with open(p, 'wb') as f:
                f.write(d)
            r = core.run([lb] + args, stdin=p, env=env, timeout=200)
            os.unlink(p)
            return r
        if mode == 'pipe':
            return core.run([lb] + args, stdin=d, feed=feed, env=env, timeout=200)
        if mode == 'throttled':
            return core.run([lb] + args, stdin=d, env=env, timeout=200, drain=(rnd.choice([1000, 65536]), 0.0005))
        if mode == 'short':
            env.update({'LD_PRELOAD': shim, 'IOSHIM_SHORT': str(seed)})
            return core.run([lb] + args, stdin=d, feed=feed, env=env, timeout=200)
        dd = core.tmpdir()
        with open(os.path.join(dd, 'f'), 'wb') as f:
            f.write(d)
        r = core.run([lb] + args + ['f'], cwd=dd, env=env, timeout=200)
        left = sorted(os.listdir(dd))
        same = open(os.path.join(dd, 'f'), 'rb').read() == d if 'f' in left else False
        shutil.rmtree(dd, ignore_errors=True)
        r.extra = (left, same)
        return r

    def one(j):
        name, d, mode, feed, w, seed, env = j
        args = ['-cdf', '-n', str(w)]
        r = deliver(args, d, mode, feed, seed, env)
        ctx.ev()
        desc = dict(input=name, size=len(d), delivery=mode, feed=feed if mode in ('pipe', 'short') else None, workers=w, env=env)
        files = {'stdin.bin': d[:3000000]}
        info = dict(desc, argv=['lbzip2'] + args)
        if lbz.bad_ending(ctx, r, '-cdf %s' % desc, files, info):
            return
        if mode == 'operand' and r.extra and (r.extra[0] != ['f'] or not r.extra[1]):
            ctx.violation('operand-touched', '-cdf FILE changed the directory: %s (input intact: %s): %s' % (r.extra[0], r.extra[1], desc), files, info)
            return
        if not is_header(d):
            if r.rc != 0 or r.err:
                ctx.violation('copy-status:' + mode, '-cdf on non-bzip2 input gives %s stderr=%r: %s' % (r.status, r.err[:150], desc), files, info)
                return
            if r.out != d:
                k = next((i for i in range(min(len(r.out), len(d))) if r.out[i] != d[i]), min(len(r.out), len(d)))
                ctx.violation('copy-bytes:' + mode + (':tiny' if len(d) < 4 else ''), '-cdf output differs from input at offset %d (%d vs %d bytes): %s'
                              % (k, len(r.out), len(d), desc), dict(files, **{'got.bin': r.out[:3000000]}), info)
                return
            ctx.count('copied_ok')
        else:
            ref = core.run([lb, '-dc', '-n', '1'], stdin=d, timeout=200)
            if ref.status != r.status or (ref.rc == 0 and ref.out != r.out):
                ctx.violation('header-input-differs-from-dc:' + mode, '-cdf on input with a bzip2 header gives %s/%d bytes, -dc gives %s/%d bytes: %s'
                              % (r.status, len(r.out), ref.status, len(ref.out), desc), files, info)
                return
            ctx.count('header_inputs_like_dc_' + ('accepted' if ref.rc == 0 else 'rejected'))
        ctx.nt((hashlib.sha1(d).hexdigest()[:12], mode, repr(feed) if mode in ('pipe', 'short') else '', w))
        ctx.count('delivery:' + mode)
        ctx.sample(desc, cap=6)

    if True:
        core.pmap(one, jobs)
        # several operands mixing bzip2 and non-bzip2 files
        for i in range(6 if q else 80):
            dd = core.tmpdir()
            names = []
            expect = b''
            for k in range(rnd.randint(2, 5)):
                nm = 'f%d' % k
                if rnd.random() < 0.5:
                    if rnd.random() < 0.4:
                        plain = gen.textlike(rnd, rnd.choice([450000, 900000]))
                        data = core.run([lb, '-1', '-n', '4'], stdin=plain, timeout=120).out     # 5-9 blocks
                    else:
                        data, plain, o = dcorpus.synth_valid(rnd)
                    content, exp = data, plain
                else:
                    content = rnd.choice(prefixes[:8]) + rnd.randbytes(rnd.choice([0, 3, 65536, 100000]))
                    if is_header(content):
                        content = b'x' + content
                    exp = content
                with open(os.path.join(dd, nm), 'wb') as f:
                    f.write(content)
                names.append(nm)
                expect += exp
            r = core.run([lb, '-cdf', '-n', str(rnd.choice([1, 2, 4]))] + names, cwd=dd, timeout=200, env=lbz.sched_env(rnd))
            ctx.ev()
            left = sorted(os.listdir(dd))
            shutil.rmtree(dd, ignore_errors=True)
            if lbz.bad_ending(ctx, r, '-cdf multi operand', None, dict(argv=['lbzip2', '-cdf'] + names)):
                continue
            if r.rc != 0 or r.out != expect or left != sorted(names):
                ctx.violation('multi-operand', '-cdf over %d mixed operands: status %s, %d bytes (want %d), directory %s' % (len(names), r.status, len(r.out), len(expect), left),
                              {'got.bin': r.out[:1000000], 'expected.bin': expect[:1000000]}, dict(argv=['lbzip2', '-cdf'] + names))
            else:
                ctx.count('multi_operand_ok')
                ctx.nt(('multi', i))
    ctx.assumptions = ['input starting with BZh[1-9] must behave as plain -dc (status; bytes when accepted)']
