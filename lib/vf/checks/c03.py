"""C03 Compressed bytes depend only on the input and the options."""
import hashlib, os, shutil
from .. import core, gen, lbz, trace

LEVEL = 'exploration'


def run_variant(ctx, lb, shim, data, path, level, ultra, v, rnd_seed):
    """Returns (Res, output bytes or None, signature or None)."""
    base = ['-%d' % level] + (['-u'] if ultra else [])
    env = dict(v.get('env', {}))
    sig = None
    tr = None
    if v.get('trace'):
        tr = core.tmppath('.trc')
        env['LBZIP2_VERIF_TRACE'] = tr
    if v.get('short'):
        env['LD_PRELOAD'] = shim
        env['IOSHIM_SHORT'] = str(v['short'])
    mode = v['mode']
    out = None
    if mode == 'file-stdin':
        r = core.run([lb] + base + ['-n', str(v['w'])], stdin=path, env=env, timeout=300, drain=v.get('drain'))
        out = r.out
    elif mode == 'pipe-stdin':
        r = core.run([lb] + base + ['-n', str(v['w'])], stdin=data, feed=v.get('feed'), env=env, timeout=300)
        out = r.out
    elif mode == 'stdout-file':
        op = core.tmppath('.out')
        r = core.run([lb] + base + ['-n', str(v['w'])], stdin=path, env=env, timeout=300, stdout_path=op)
        with open(op, 'rb') as f:
            out = f.read()
        os.unlink(op)
    elif mode in ('operand', 'operand-c'):
        d = core.tmpdir()
        shutil.copy(path, os.path.join(d, 'in'))
        if mode == 'operand':
            r = core.run([lb] + base + ['-n', str(v['w']), '-k', 'in'], cwd=d, env=env, timeout=300)
            try:
                with open(os.path.join(d, 'in.bz2'), 'rb') as f:
                    out = f.read()
            except FileNotFoundError:
                out = None
        else:
            r = core.run([lb] + base + ['-n', str(v['w']), '-c', 'in'], cwd=d, env=env, timeout=300)
            out = r.out
        shutil.rmtree(d, ignore_errors=True)
    if tr:
        ev = trace.parse(tr)
        if ev:
            sig = trace.signature(ev)
        try:
            os.unlink(tr)
        except OSError:
            pass
    return r, out, sig


def one(ctx, lb, shim, c):
    data = c['data']
    path = core.tmppath('.in')
    with open(path, 'wb') as f:
        f.write(data)
    desc = dict(family=c['fam'], size=len(data), level=c['level'], ultra=c['ultra'])
    ref, refout, _ = run_variant(ctx, lb, shim, data, path, c['level'], c['ultra'], dict(mode='file-stdin', w=1), 0)
    ctx.ev()
    files = {'input.bin': data[:4000000]}
    if lbz.bad_ending(ctx, ref, 'reference run %s' % desc, files, desc) or ref.rc != 0:
        if ref.rc not in (None, 0):
            ctx.violation('reference-failed', 'reference compression failed %s %r' % (ref.status, ref.err[:200]), files, desc)
        os.unlink(path)
        return
    sigs = set()
    okall = True
    for v in c['variants']:
        r, out, sig = run_variant(ctx, lb, shim, data, path, c['level'], c['ultra'], v, 0)
        ctx.ev()
        vd = dict(desc, variant={k: x for k, x in v.items()})
        info = dict(vd, argv=r.argv)
        if lbz.bad_ending(ctx, r, 'variant %s' % vd, files, info):
            okall = False
            continue
        if r.rc != 0 or out is None:
            ctx.violation('variant-failed:' + v['mode'], 'variant run failed (%s, %r): %s' % (r.status, r.err[:200], vd), files, info)
            okall = False
            continue
        if out != refout:
            k = next((i for i in range(min(len(out), len(refout))) if out[i] != refout[i]), min(len(out), len(refout)))
            ctx.violation('bytes-differ:' + v['mode'] + (':short-io' if v.get('short') else ''),
                          'compressed bytes differ from the reference run at offset %d (%d vs %d bytes): %s'
                          % (k, len(out), len(refout), vd), dict(files, **{'reference.bz2': refout, 'variant.bz2': out}), info)
            okall = False
            continue
        ctx.count('variant:' + v['mode'] + ('+short-io' if v.get('short') else ''))
        if sig:
            sigs.add(sig)
    os.unlink(path)
    if okall:
        nblocks = refout.count(bytes.fromhex('314159265359'))
        for s in sigs:
            ctx.nt((hashlib.sha1(data).hexdigest()[:12], c['level'], c['ultra'], s))
        ctx.count('inputs_agreeing_on_all_variants')
        ctx.count('schedule_signatures', len(sigs))
        if len(sigs) <= 1 and nblocks >= 3:
            ctx.count('weak_inputs_single_signature')
        ctx.sample(dict(desc, blocks=nblocks, variants=len(c['variants']), distinct_schedule_signatures=len(sigs)))


def run(ctx):
    ctx.rule = ('each input is compressed once as reference (1 worker, file stdin, no perturbation) and under N variants: worker counts '
                '1-16, jitter/straggler/slow-thread schedules (H1), stdin from a pipe in seeded fragments, LD_PRELOAD short reads and '
                'short writes, stdout to file / throttled pipe, FILE operand -> FILE.bz2 and -c FILE; every output must be byte-identical; '
                'non-trivial = distinct (input, level, mode, schedule signature) where the signature hashes the recorded task/hand-off '
                'sequence of the run (so evaluations with the same schedule are not counted twice)')
    q = ctx.quick()
    rnd = ctx.rng('cases')
    lb = core.build_lbzip2('hook')
    shim = core.build_native('ioshim')
    cs = []
    nin, nvar = (36, 10) if q else (320, 24)
    for i in range(nin):
        level = rnd.choice([1, 1, 1, 2, 3]) if q else rnd.choice([1, 1, 2, 3, 5, 9])
        nblk = rnd.choice([3, 5, 8, 12]) if q else rnd.choice([3, 8, 20, 40])
        # round-robin, so that every family (and, for the runs-of-four family, both modes) is present at every seed
        fam = ['uniform', 'runs4', 'text', 'runs', 'concat', 'sprinkled4', 'k4', 'boundary', 'tandem'][i % 9]
        size = min(level * 100000 * nblk + rnd.randint(0, 99999), 3000000 if q else 12000000)
        data = gen.make(rnd, fam, size, level)
        vs = []
        for j in range(nvar):
            mode = rnd.choice(['file-stdin', 'file-stdin', 'pipe-stdin', 'pipe-stdin', 'stdout-file', 'operand', 'operand-c'])
            v = dict(mode=mode, w=rnd.choice([1, 2, 3, 5, 8, 16]), env=lbz.sched_env(rnd, allow_none=(j % 3 == 0)))
            if mode == 'pipe-stdin':
                v['feed'] = lbz.feed_pattern(rnd) or ([rnd.choice([1, 70000])], 0)
                if v['feed'][0] == [1] and size > 300000:
                    v['feed'] = ([4097, 1, 99999], 0)
            if mode == 'file-stdin' and rnd.random() < 0.4:
                v['drain'] = (rnd.choice([512, 4096, 65536]), 0.0003)
            if rnd.random() < 0.3:
                v['short'] = rnd.randrange(1, 1 << 30)
            else:
                v['trace'] = True
            vs.append(v)
        ultra = rnd.random() < 0.4
        if fam in ('runs4', 'sprinkled4'):
            ultra = (i // 9) % 4 == 3
        cs.append(dict(fam=fam, data=data, level=level, ultra=ultra, variants=vs))
    core.pmap(lambda c: one(ctx, lb, shim, c), cs, jobs=12)
    ctx.extra['distinct_schedule_signatures'] = len(set(k[3] for k in ctx.nontrivial))
    ctx.assumptions = ['schedule diversity is measured by trace signatures; unobserved schedules are not covered']
