"""C21 I/O failures on filters terminate promptly."""
import errno, os, shutil, signal, subprocess, time
from .. import core, lbz, shim, gen

LEVEL = 'fault_enumeration'
E = {'EIO': errno.EIO, 'ENOSPC': errno.ENOSPC, 'EPIPE': errno.EPIPE, 'EFBIG': errno.EFBIG}


def judge(ctx, r, what, errname, desc, files):
    """Common verdict for a run with an injected I/O failure."""
    info = dict(desc, argv=r.argv[-4:], variant='plain')
    if lbz.bad_ending(ctx, r, what, files, info):
        return False
    k = '%s:%s' % (desc['direction'], errname)
    if r.rc == 0:
        ctx.violation('exit0-after-failure:' + k, 'exit 0 although %s was injected: %s' % (errname, desc), files, info)
        return False
    if errname in ('EIO', 'ENOSPC', 'EISDIR'):
        if r.rc != 1:
            ctx.violation('status:%s:%s' % (r.status, k), 'ended %s (want exit 1) after %s: %s' % (r.status, errname, desc), files, info)
            return False
        if not r.err.strip():
            ctx.violation('no-diagnostic:' + k, 'exit 1 without a diagnostic after %s: %s' % (errname, desc), files, info)
            return False
    else:
        want_sig = signal.SIGPIPE if errname == 'EPIPE' else signal.SIGXFSZ
        ignored = desc.get('signal_ignored')
        ok = (r.rc == 1) if ignored else (r.sig == want_sig or r.rc == 1)
        if not ok:
            ctx.violation('status:%s:%s' % (r.status, k), 'ended %s (want %s) after %s: %s'
                          % (r.status, 'exit 1' if ignored else 'death by signal %d or exit 1' % want_sig, errname, desc), files, info)
            return False
        if r.err.strip():
            ctx.violation('diagnostic-for-' + k, 'a diagnostic was printed for %s: %r: %s' % (errname, r.err[:200], desc), files, info)
            return False
        ctx.count('ended_by_signal' if r.sig else 'ended_exit1_silent')
    return True


def run(ctx):
    ctx.rule = ('filter runs (compress, decompress, -cdf copy; 1 and 4 workers) under the LD_PRELOAD shim: a counting pass gives the number of '
                'read and write calls, then EVERY read position is failed with EIO and EVERY write position with EIO, ENOSPC, EPIPE(+SIGPIPE) and '
                'EFBIG(+SIGXFSZ); only injections that fired count; plus real faults: stdout pipe closed by the reader after k bytes (SIGPIPE '
                'default and ignored), RLIMIT_FSIZE on a regular-file stdout (default and ignored SIGXFSZ), stdin that is a directory; '
                'termination judged by the deadlock criterion; non-trivial = distinct (direction, workers, call kind, position, error)')
    q = ctx.quick()
    rnd = ctx.rng('data')
    lb = core.build_lbzip2('plain')
    hook = core.build_lbzip2('hook')
    runmon = core.build_native('runmon')
    plain_c = gen.uniform(rnd, 600000) + gen.textlike(rnd, 500000)
    comp_d = core.run([hook, '-1', '-n', '4'], stdin=gen.uniform(rnd, 700000) + gen.textlike(rnd, 2500000), timeout=120).out
    comp_d = comp_d + core.run([hook, '-9'], stdin=gen.textlike(rnd, 300000), timeout=120).out
    copy_d = b'not bzip2 ' + gen.uniform(rnd, 700000)
    workloads = [('compress', ['-1'], plain_c), ('decompress', ['-d'], comp_d), ('copy', ['-cdf'], copy_d)]
    if not q:
        workloads += [('compress-u', ['-2', '-u'], plain_c * 2), ('decompress-small', ['-d'], comp_d[:len(comp_d) // 3])]
    ws = [1, 4]
    jobs = []
    for direction, args, data in workloads:
        for w in ws:
            a = args + ['-n', str(w)]
            r0, c0 = shim.run(lb, a, stdin=data, timeout=120)
            ctx.ev()
            if r0.rc != 0 and direction != 'decompress-small':
                raise core.HarnessError('counting pass failed for %s: %s %r' % (direction, r0.status, r0.err[:200]))
            ctx.count('counted_reads:%s:n%d' % (direction, w), c0['read'])
            ctx.count('counted_writes:%s:n%d' % (direction, w), c0['write'])
            for n in range(1, c0['read'] + 1):
                jobs.append((direction, a, data, w, 'read', n, 'EIO'))
            for n in range(1, c0['write'] + 1):
                for en in ('EIO', 'ENOSPC', 'EPIPE', 'EFBIG'):
                    jobs.append((direction, a, data, w, 'write', n, en))

    def one(j):
        direction, a, data, w, kind, n, en = j
        r, c = shim.run(lb, a, rule='%s:%d:err:%d' % (kind, n, E[en]), stdin=data, timeout=120)
        ctx.ev()
        desc = dict(direction=direction, workers=w, call=kind, position=n, error=en)
        if c['fired'] < 1:
            ctx.count('injections_not_fired')
            return
        ctx.count('injections_fired:%s:%s' % (kind, en))
        if judge(ctx, r, 'injected %s' % desc, en, desc, None):
            ctx.nt((direction, w, kind, n, en))
            ctx.sample(dict(desc, outcome=r.status, stderr=r.err.decode(errors='replace').strip()[:100]), cap=6)
    core.pmap(one, jobs)
    ctx.exhaustive = True
    ctx.extra['exhaustive_scope'] = 'every read and write call position of each counted filter run x each error code'

    # ---- real faults
    def target_pid(pid):
        """The launcher's child if the process is runmon, else the process itself."""
        try:
            kids = open('/proc/%d/task/%d/children' % (pid, pid)).read().split()
            return int(kids[0]) if kids else pid
        except Exception:
            return pid

    def closed_pipe(direction, args, data, k, ignore):
        argv = ([runmon, '-i', '13', '--'] if ignore else []) + [lb] + args
        p = subprocess.Popen(argv, stdin=subprocess.PIPE, stdout=subprocess.PIPE, stderr=subprocess.PIPE, start_new_session=True)
        import threading
        def feed():
            try:
                p.stdin.write(data); p.stdin.close()
            except (BrokenPipeError, OSError):
                pass
        t = threading.Thread(target=feed, daemon=True); t.start()
        got = 0
        while got < k:
            b = p.stdout.read(min(65536, k - got))
            if not b:
                break
            got += len(b)
        p.stdout.close()
        r = core.Res(); r.argv = argv
        t0 = time.time()
        try:
            p.wait(timeout=40)
        except subprocess.TimeoutExpired:
            dead, dump = core.judge_hang(p.pid)
            r.timed_out = True; r.deadlock = dead; r.gdb = dump
            core.kill_group(p); p.wait()
        r.err = p.stderr.read(); p.stderr.close()
        if not r.timed_out:
            if p.returncode < 0:
                r.sig = -p.returncode
            else:
                r.rc = p.returncode
        return r
    pj = []
    for direction, args, data in workloads[:3]:
        for w in ws:
            for k in ([0, 1, 70000] if q else [0, 1, 4, 5000, 70000, 200000, 400000]):
                for ignore in (False, True):
                    pj.append((direction, args, data, w, k, ignore))

    def pipe_one(j):
        direction, args, data, w, k, ignore = j
        r = closed_pipe(direction, args + ['-n', str(w)], data, k, ignore)
        ctx.ev()
        desc = dict(direction=direction, workers=w, real_fault='reader closes stdout after %d bytes' % k, signal_ignored=ignore)
        if judge(ctx, r, 'closed pipe %s' % desc, 'EPIPE', desc, None):
            ctx.nt((direction, w, 'closed-pipe', k, ignore))
            ctx.count('real_closed_pipe_runs')
    core.pmap(pipe_one, pj)
    # RLIMIT_FSIZE on a regular file
    fj = []
    for direction, args, data in workloads[:3]:
        for w in ws:
            for limit in ([0, 50000] if q else [0, 1, 50000, 300000]):
                for ignore in (False, True):
                    fj.append((direction, args, data, w, limit, ignore))

    def fsize_one(j):
        direction, args, data, w, limit, ignore = j
        out = core.tmppath('.out')
        argv = [runmon, '-f', str(limit)] + (['-i', '25'] if ignore else []) + ['--', lb] + args + ['-n', str(w)]
        r = core.run(argv, stdin=data, stdout_path=out, timeout=40)
        ctx.ev()
        try:
            os.unlink(out)
        except OSError:
            pass
        desc = dict(direction=direction, workers=w, real_fault='RLIMIT_FSIZE=%d' % limit, signal_ignored=ignore)
        if judge(ctx, r, 'fsize %s' % desc, 'EFBIG', desc, None):
            ctx.nt((direction, w, 'fsize', limit, ignore))
            ctx.count('real_fsize_runs')
    core.pmap(fsize_one, fj)
    # stdin is a directory
    d = core.tmpdir()
    fd = os.open(d, os.O_RDONLY)
    for direction, args, data in workloads[:3]:
        r = core.run([lb] + args + ['-n', '2'], stdin=fd, timeout=60)
        ctx.ev()
        desc = dict(direction=direction, workers=2, real_fault='stdin is a directory')
        if judge(ctx, r, 'EISDIR %s' % desc, 'EISDIR', desc, None):
            ctx.nt((direction, 'eisdir'))
            ctx.count('real_eisdir_runs')
    os.close(fd)
    shutil.rmtree(d, ignore_errors=True)
    ctx.assumptions = ['faults are injected at the libc call boundary; "promptly" = terminates under the CPU-progress criterion']
