"""C07 Damaged input is rejected cleanly."""
import bz2, hashlib, os, shutil
from .. import core, ora, lbz, gen, defects, dcorpus, bzsynth as bs

LEVEL = 'fault_enumeration'

GOOD_PLAIN = [b'first intact operand\n' * 40, b'']
GOOD_BZ = [bz2.compress(GOOD_PLAIN[0], 1), bz2.compress(GOOD_PLAIN[1], 9)]


def judge(ctx, lb, item):
    data, origin, filemode, w = item
    verdict, inf, _ = ora.refbz(data, want_out=False)
    ctx.ev()
    if verdict != 'INVALID':
        ctx.count('skipped_not_invalid_for_refbz')
        return
    okl, outl, why = ora.libbz2(data)
    if okl:
        ctx.count('skipped_oracles_disagree')
        return
    reason = inf['reason']
    files = {'input.bz2': data}
    if not filemode:
        argv = [lb, '-d', '-n', str(w)]
        r = core.run(argv, stdin=data, timeout=120)
        info = dict(origin=origin, argv=argv, ref_reason=reason)
    else:
        d = core.tmpdir()
        name = 'f.bz2'
        with open(os.path.join(d, name), 'wb') as f:
            f.write(data)
        # a seeded half of the FILE-operand runs puts one or two intact operands in front of the damaged one: the
        # outcome for the damaged operand must not depend on what the same process did before
        ngood = (len(data) + w) % 3 if filemode == 2 else 0
        want = {name: data}
        for g in range(ngood):
            want['g%d' % g] = GOOD_PLAIN[g]
            with open(os.path.join(d, 'g%d.bz2' % g), 'wb') as f:
                f.write(GOOD_BZ[g])
        argv = [lb, '-d', '-n', str(w)] + ['g%d.bz2' % g for g in range(ngood)] + [name]
        r = core.run(argv, cwd=d, timeout=120)
        left = sorted(os.listdir(d))
        info = dict(origin=origin, argv=argv, ref_reason=reason, directory_after=left, intact_operands_before=ngood)
        ok_state = left == sorted(want) and all(open(os.path.join(d, k), 'rb').read() == v for k, v in want.items())
        shutil.rmtree(d, ignore_errors=True)
        if ngood:
            ctx.count('damaged_operand_after_intact_operands')
    if lbz.bad_ending(ctx, r, 'decompress damaged input (%s; %s)' % (origin, reason), files, info):
        return
    rk = reason.replace(' ', '-')
    if r.sig is not None:
        ctx.violation('signal:%d:%s' % (r.sig, rk), 'lbzip2 -d died from signal %d on invalid input (%s; %s)' % (r.sig, origin, reason), files, info)
        return
    if r.rc != 1:
        ctx.violation('status:%d:%s' % (r.rc, rk), 'lbzip2 -d -n%d exit %d (want 1) on invalid input (%s; refbz: %s; %s)'
                      % (w, r.rc, origin, reason, why), files, info)
        return
    if not r.err.strip():
        ctx.violation('no-diagnostic:' + rk, 'exit 1 but nothing on stderr (%s; %s)' % (origin, reason), files, info)
        return
    if filemode:
        ctx.count('file_operand_runs')
        if not ok_state:
            ctx.violation('file-state:' + rk, 'after rejecting FILE operand the directory holds %s (want %s with the damaged input intact) (%s)'
                          % (left, sorted(want), origin), files, info)
            return
    ctx.nt(hashlib.sha1(data).hexdigest())
    diag = r.err.decode(errors='replace').strip().split('\n')[0].split(': ')[-1][:40]
    ctx.count('pair:%s -> %s' % (reason, diag))
    ctx.sample(dict(origin=origin, size=len(data), ref_reason=reason, workers=w, file_operand=filemode, stderr=r.err.decode(errors='replace').strip()[:120]), cap=6)


def fm(rnd):
    x = rnd.random()
    return 0 if x >= 0.14 else 1 if x < 0.07 else 2


def trunc_corpus(ctx, rnd, lb):
    out = []
    q = ctx.quick()
    n_synth, n_lb, n_other = (6, 3, 3) if q else (40, 16, 16)
    for i in range(n_synth):
        data, plain, o = dcorpus.synth_valid(rnd, nstreams=rnd.choice([1, 2, 3]), trailing=rnd.choice([b'', b'', b'junk']))
        if len(data) < 1500:
            out.append(('synth', data))
    for i in range(n_lb):
        d = gen.textlike(rnd, rnd.choice([10, 200, 900])) if i else b''
        r = core.run([lb, '-1', '-n', '1'], stdin=d, timeout=60)
        out.append(('lbzip2', r.out + (core.run([lb, '-9'], stdin=b'second stream', timeout=60).out if i % 2 else b'')))
    for i in range(n_other):
        d = gen.ksym(rnd, rnd.choice([5, 300]), 4)
        out.append(('libbz2', bz2.compress(d, rnd.randint(1, 9))))
    # stream CRC ending in a zero byte, for every file-size residue mod 4: the zero padding of the last input
    # word can stand in for a cut-off zero byte
    need = {0, 1, 2, 3}
    tries = 0
    while need and tries < 20000:
        tries += 1
        d = b'z%d' % tries + b'q' * (tries % 7)
        c = bz2.compress(d, 1)
        if c[-1] == 0 and len(c) % 4 in need:
            need.discard(len(c) % 4)
            out.append(('crc-ends-in-zero-mod%d' % (len(c) % 4), c))
    return out


def run(ctx):
    ctx.rule = ('EVERY truncation point (every byte length 0..len-1) of each corpus stream (exhaustive per file), every single-defect '
                'stream kind, field-level and byte-level mutants, empty and 1-3 byte inputs; filter mode for most, FILE-operand mode for a seeded share, half of those with 0-2 intact operands in '
                'front of the damaged one in the same invocation; an input is judged only if refbz AND libbz2 call it invalid; required: exit 1, diagnostic, no '
                'signal, no hang, no output file; non-trivial = distinct invalid input that was judged')
    q = ctx.quick()
    rnd = ctx.rng('inputs')
    lb = core.build_lbzip2('hook')
    items = []
    tc = trunc_corpus(ctx, rnd, lb)
    ntr = 0
    for name, data in tc:
        for k in range(len(data)):
            items.append((data[:k], '%s:trunc@%d/%d' % (name, k, len(data)), fm(rnd), rnd.choice([1, 2, 4])))
            ntr += 1
    ctx.extra['truncation_files'] = len(tc)
    ctx.extra['truncation_points_enumerated'] = ntr
    ctx.exhaustive = True
    ctx.extra['exhaustive_scope'] = 'every truncation length of each truncation-corpus file; other inputs are sampled'
    for kind in defects.DEFECTS:
        for i in range(12 if q else 120):
            try:
                data, k = defects.make(rnd, kind)
            except core.HarnessError:
                raise
            except Exception:
                continue
            items.append((data, 'defect:' + kind, fm(rnd), rnd.choice([1, 2, 4])))
    for b in (b'', b'B', b'BZ', b'BZh', b'BZh9', b'BZh1\x17', b'\0\0\0\0', b'BZh0' + b'x' * 40, rnd.randbytes(100), b'PK\x03\x04' + rnd.randbytes(50)):
        for w in (1, 3):
            items.append((b, 'tiny/wrong-magic', False, w))
            items.append((b, 'tiny/wrong-magic', 1, w))
            items.append((b, 'tiny/wrong-magic', 2, w))
    bases = [dcorpus.synth_valid(rnd)[0] for _ in range(6 if q else 60)]
    for p in dcorpus.repo_all_files():
        with open(p, 'rb') as f:
            d = f.read()
        if len(d) < 100000:
            bases.append(d)
    for d in bases:
        v, info, _ = ora.refbz(d, want_out=False)
        for m, what in defects.field_mutants(rnd, d, info, 25 if q else 160):
            items.append((m, 'mutant:' + what, fm(rnd), rnd.choice([1, 2, 4])))
        for _ in range(15 if q else 120):
            items.append((bs.byte_mutate(rnd, d), 'mutant:byte', fm(rnd), rnd.choice([1, 2, 4])))
    core.pmap(lambda it: judge(ctx, lb, it), items)
    ctx.assumptions = ['an input is "not a valid bzip2 file" when both refbz and libbz2 reject it']
