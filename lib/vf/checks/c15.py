"""C15 Stored CRC fields are enforced."""
import bz2, hashlib
from .. import core, ora, lbz, gen, dcorpus, bzsynth as bs

LEVEL = 'fault_enumeration'


def corpus(ctx, rnd, lb):
    out = []
    q = ctx.quick()
    # lbzip2-produced multi-block, multi-stream
    for i in range(2 if q else 12):
        parts = []
        for s in range(rnd.randint(1, 3) if i else 3):
            level = rnd.choice([1, 1, 2])
            d = gen.textlike(rnd, rnd.choice([50, 150000, 250000])) + gen.uniform(rnd, rnd.choice([0, 60000]))
            r = core.run([lb, '-%d' % level, '-n', '2'], stdin=d, timeout=120)
            if r.rc != 0:
                raise core.HarnessError('cannot build corpus')
            parts.append(r.out)
        out.append(('lbzip2-concat%d' % len(parts), b''.join(parts)))
    for i in range(1 if q else 8):
        d = gen.textlike(rnd, 120000)
        out.append(('libbz2', bz2.compress(d, 1) + bz2.compress(d[:5000], 9)))
    for i in range(1 if q else 6):
        d = (gen.textlike(rnd, 3000) * 30)[:rnd.choice([30000, 90000])]
        out.append(('bz01', dcorpus.bz01(d, 1)))
    for i in range(2 if q else 30):
        data, plain, o = dcorpus.synth_valid(rnd, nstreams=rnd.randint(2, 5), trailing=b'')
        out.append(('synth-unaligned', data))
    # layouts with empty streams (no blocks) next to the corrupted one
    empty = bz2.compress(b'', 9)
    small = [bz2.compress(gen.textlike(rnd, 300 + 50 * i), rnd.randint(1, 9)) for i in range(3)]
    for name, parts in (('A+E', [small[0], empty]), ('A+E+B', [small[0], empty, small[1]]), ('E+A+B', [empty, small[0], small[1]]),
                        ('B+E+E+A', [small[1], empty, empty, small[2]])):
        out.append(('layout-' + name, b''.join(parts)))
    # header straddling input blocks is covered by small IN_GRANUL (H2)
    return out


def run(ctx):
    ctx.rule = ('for each corpus file the reference field map gives every stored block CRC and stream CRC field; EVERY bit of EVERY field '
                'is flipped (exhaustive per file) and lbzip2 -d must exit 1 with a diagnostic at each worker count; some runs use a '
                'small input granule (H2) so that block headers straddle input blocks and are found only by the parser; '
                'non-trivial = distinct (file, field, bit)')
    lb = core.build_lbzip2('hook')
    rnd = ctx.rng('corpus')
    files = corpus(ctx, rnd, lb)
    ws = [1, 4] if ctx.quick() else [1, 2, 4, 8]
    jobs = []
    for name, data in files:
        v, info, out = ora.refbz(data, want_out=False)
        if v != 'VALID':
            raise core.HarnessError('corpus file not valid: ' + name)
        fields = []
        for si, st in enumerate(info['streams']):
            nb = len(st['blocks'])
            for bi, b in enumerate(st['blocks']):
                pos = 'first' if bi == 0 else 'last' if bi == nb - 1 else 'middle'
                fields.append(('s%d-block%d(%s)' % (si, bi, pos), b['crc_at']))
            fields.append(('s%d-streamcrc' % si, st['scrc_at']))
        ctx.count('files')
        ctx.count('crc_fields', len(fields))
        for fname, at in fields:
            for bit in range(32):
                for w in ws:
                    env = {}
                    if (bit + w) % 3 == 0:
                        env = {'LBZIP2_VERIF_IN_GRANUL': str(rnd.choice([64, 1000, 4096]))}
                    elif len(data) < 20000 and (bit + w) % 3 == 1:
                        # parser suspended inside header / trailer fields
                        env = {'LBZIP2_VERIF_IN_GRANUL': str(rnd.choice([4, 8, 12]))}
                    jobs.append((name, data, fname, at + bit, w, env))

    def one(j):
        name, data, fname, bitpos, w, env = j
        mutated = bs.flip_bit(data, bitpos)
        argv = [lb, '-d', '-n', str(w)]
        r = core.run(argv, stdin=mutated, env=env, timeout=120)
        ctx.ev()
        f = {'input.bz2': mutated}
        info = dict(file=name, field=fname, bit=bitpos, argv=argv, env=env)
        if lbz.bad_ending(ctx, r, 'crc flip %s %s' % (name, fname), f, info):
            return
        kind = 'streamcrc' if 'streamcrc' in fname else 'blockcrc'
        if r.rc != 1:
            ctx.violation('not-rejected:%s:%s' % (kind, r.status), 'flipping bit %d (%s of %s) gives %s instead of exit 1 at -n%d %s'
                          % (bitpos, fname, name, r.status, w, env), f, info)
            return
        if not r.err:
            ctx.violation('no-diagnostic:' + kind, 'exit 1 without a diagnostic for %s of %s' % (fname, name), f, info)
            return
        ctx.nt((hashlib.sha1(data).hexdigest()[:12], fname, bitpos))
        ctx.count('flips_rejected')
        ctx.count('diag:' + r.err.decode(errors='replace').strip().split(': ')[-1][:40])
        ctx.sample(dict(file=name, field=fname, bit=bitpos, workers=w, env=env, stderr=r.err.decode(errors='replace').strip()), cap=5)
    core.pmap(one, jobs)
    ctx.exhaustive = True
    ctx.extra['exhaustive_scope'] = 'all 32 bits of every CRC field of each corpus file'
