"""C09 Decompression result is independent of configuration and schedule."""
import hashlib, os, shutil
from .. import core, gen, lbz, ora, dcorpus, defects, inproc, bzsynth as bs

LEVEL = 'exploration'
IN_G = [4, 8, 12, 16, 36, 64, 100, 252, 1024, 4096, 65536, 262144, 1048576]
OUT_G = [1, 2, 3, 4, 5, 7, 255, 256, 4096, 900000]


def run_variant(lb, data, path, v):
    env = dict(v.get('env', {}))
    mode = v['mode']
    base = [lb, '-d', '-n', str(v['w'])]
    if mode == 'stdout':
        r = core.run(base, stdin=data, feed=v.get('feed'), env=env, timeout=300, drain=v.get('drain'))
        return r, r.out
    if mode == 'file-stdin':
        r = core.run(base, stdin=path, env=env, timeout=300)
        return r, r.out
    if mode == 'test':
        r = core.run(base + ['-t'], stdin=path, env=env, timeout=300)
        return r, None
    d = core.tmpdir()
    shutil.copy(path, os.path.join(d, 'x.bz2'))
    out = None
    if mode == 'operand':
        r = core.run(base + ['-k', 'x.bz2'], cwd=d, env=env, timeout=300)
        try:
            with open(os.path.join(d, 'x'), 'rb') as f:
                out = f.read()
        except FileNotFoundError:
            out = b'' if r.rc == 0 else None
            if r.rc == 0:
                out = None
    else:
        r = core.run(base + ['-c', 'x.bz2'], cwd=d, env=env, timeout=300)
        out = r.out
    shutil.rmtree(d, ignore_errors=True)
    return r, out


def one(ctx, lb, c):
    data = c['data']
    path = core.tmppath('.bz2')
    with open(path, 'wb') as f:
        f.write(data)
    desc = dict(origin=c['name'], size=len(data))
    files = {'input.bz2': data[:3000000]}
    ref, refout = run_variant(lb, data, path, dict(mode='file-stdin', w=1))
    ctx.ev()
    if lbz.bad_ending(ctx, ref, 'reference decompression %s' % desc, files, desc, 'reference:'):
        os.unlink(path)
        return
    ok = True
    for v in c['variants']:
        r, out = run_variant(lb, data, path, v)
        ctx.ev()
        vd = dict(desc, variant=v)
        info = dict(vd, argv=r.argv, env=v.get('env'), reference_status=ref.status)
        if lbz.bad_ending(ctx, r, 'variant %s' % vd, files, info):
            ok = False
            continue
        kind = v['mode'] + ('+in_granule' if 'LBZIP2_VERIF_IN_GRANUL' in v.get('env', {}) else '') + \
            ('+out_granule' if 'LBZIP2_VERIF_OUT_GRANUL' in v.get('env', {}) else '')
        if r.status != ref.status:
            ctx.violation('status-differs:' + kind, 'exit status %s differs from the reference run %s: %s (stderr %r / %r)'
                          % (r.status, ref.status, vd, r.err[:120], ref.err[:120]), files, info)
            ok = False
            continue
        if r.rc == 0 and out is not None and out != refout:
            ctx.violation('bytes-differ:' + kind, 'output differs from the reference run (%d vs %d bytes): %s' % (len(out), len(refout), vd),
                          dict(files, **{'reference.out': refout[:2000000], 'variant.out': out[:2000000]}), info)
            ok = False
            continue
        if r.rc == 0 and out is None and v['mode'] != 'test':
            ctx.violation('no-output-file:' + kind, 'exit 0 but no output file: %s' % vd, files, info)
            ok = False
            continue
        if r.rc != 0 and not r.err:
            ctx.count('failing_runs_without_diagnostic')
        ctx.count('variant:' + kind)
        ctx.nt((hashlib.sha1(data).hexdigest()[:12], repr(sorted(v.get('env', {}).items())), v['mode'], v['w'], repr(v.get('feed'))))
    os.unlink(path)
    if ok:
        ctx.count('inputs_valid' if ref.rc == 0 else 'inputs_invalid')
        ctx.sample(dict(desc, reference=ref.status, variants=len(c['variants']), first_variant=c['variants'][0]), cap=5)


def plen(data):
    v, info, out = ora.refbz(data, nocrc=True, lax=True)
    return len(out)


def mkvariants(rnd, n, small, complen=0, plainlen=0):
    """Granules are paired with input sizes so that the number of scheduler
    slices (and of perturbation sleeps) stays bounded: tiny granules multiply
    scheduler work, they are not a liveness hazard."""
    vs = []
    for j in range(n):
        mode = rnd.choice(['stdout', 'stdout', 'stdout', 'file-stdin', 'operand', 'operand-c', 'test'])
        env = lbz.sched_env(rnd, allow_none=True)
        ig = og = None
        if rnd.random() < 0.7:
            ig = rnd.choice([g for g in (IN_G if small else IN_G[6:]) if complen / g <= 20000] or [262144])
            env['LBZIP2_VERIF_IN_GRANUL'] = str(ig)
        if rnd.random() < 0.7:
            og = rnd.choice([g for g in (OUT_G if small else OUT_G[6:]) if plainlen / g <= 40000] or [900000])
            env['LBZIP2_VERIF_OUT_GRANUL'] = str(og)
        slices = complen / (ig or 262144) + plainlen / (og or 900000)
        if slices > 400 and ('straggler' in env.get('LBZIP2_VERIF_SCHED', '') or 'gaps' in env.get('LBZIP2_VERIF_SCHED', '')):
            env['LBZIP2_VERIF_SCHED'] = env['LBZIP2_VERIF_SCHED'].split(':')[0] + ':jitter'
        if slices > 20000:
            env.pop('LBZIP2_VERIF_SCHED', None)
        v = dict(mode=mode, w=rnd.choice([1, 2, 3, 4, 8, 16]), env=env)
        if mode == 'stdout':
            v['feed'] = lbz.feed_pattern(rnd)
            if rnd.random() < 0.3:
                v['drain'] = (rnd.choice([1, 100, 4096] if plainlen <= 60000 else [4096, 65536]), 0)
        vs.append(v)
    return vs


def run(ctx):
    ctx.rule = ('each valid or invalid input is decompressed once as reference (1 worker, defaults) and under N variants over workers 1-16, '
                'schedule perturbation (H1), input granule 4 B..1 MiB and output granule 1 B..900000 (H2: suspends the bit-stream '
                'decoder and the run-length emitter everywhere), stdin fragmentation, throttled stdout, inputs with spurious header patterns inside coded data, and output modes stdout / -c FILE '
                '/ FILE->file / -t; exit status compared on every run, bytes among exit-0 runs; in-process: retrieve() resumed at every '
                '32-bit word and emit() with 1-7 byte buffers vs one-shot; non-trivial = distinct (input, configuration) pairs that ran')
    q = ctx.quick()
    rnd = ctx.rng('cases')
    lb = core.build_lbzip2('hook')
    cs = []
    nsmall, nbig, ninv, nvar = (16, 6, 12, 16) if q else (150, 60, 120, 50)
    for i in range(nsmall):
        k = rnd.random()
        if k < 0.5:
            data, plain, o = dcorpus.synth_valid(rnd)
            name = 'synth:' + ','.join(o)
        else:
            d = gen.make(rnd, rnd.choice(['text', 'runs', 'k4', 'uniform', 'onebyte', 'tandem']), rnd.choice([100, 3000, 39000]), 1)
            if rnd.random() < 0.5:
                import bz2
                data = bz2.compress(d, rnd.randint(1, 9)) + bz2.compress(d[:77], 1)
                name = 'libbz2-2streams'
            else:
                data = core.run([lb, '-1'], stdin=d, timeout=60).out + core.run([lb, '-9'], stdin=d[:500], timeout=60).out
                name = 'lbzip2-2streams'
        if len(data) > 60000:
            continue
        cs.append(dict(name=name, data=data, variants=mkvariants(rnd, nvar, True, len(data), plen(data))))
    # coding groups of (nearly) 1000 bits next to input-block boundaries: many input block sizes
    for i in range(8 if q else 80):
        data = bs.build([bs.Stream(rnd.randint(1, 9), [bs.maxlen_block(rnd, 9) for _ in range(rnd.randint(1, 2))])])
        vs = mkvariants(rnd, nvar // 2, True, len(data), plen(data))
        for v in vs:
            v['env']['LBZIP2_VERIF_IN_GRANUL'] = str(4 * rnd.randrange(32, 700))
            if 'straggler' in v['env'].get('LBZIP2_VERIF_SCHED', '') or 'gaps' in v['env'].get('LBZIP2_VERIF_SCHED', ''):
                v['env'].pop('LBZIP2_VERIF_SCHED')
        cs.append(dict(name='synth:maxlen-groups', data=data, variants=vs))
    # valid streams whose coded data contains spurious block-header patterns (candidates the scanner reports and the parser
    # later passes over): the result must not depend on when the speculative work on them runs
    from . import c10
    for i in range(8 if q else 100):
        kind = rnd.choice(['pattern-alone', 'pattern+crc+garbage', 'inner-block', 'adjacent', 'pattern+crc+garbage'])
        data = c10.make_case(rnd, kind)
        vs = mkvariants(rnd, nvar // 2, True, len(data), plen(data))
        for v in vs:
            v['w'] = max(2, v['w'])
        cs.append(dict(name='synth:spurious-header-' + kind, data=data, variants=vs))
    for i in range(3 if q else 40):
        name, data, plain = dcorpus.concat_levels(rnd, lb)
        cs.append(dict(name=name, data=data, variants=mkvariants(rnd, nvar // 2, False, len(data), len(plain))))
    for i in range(nbig):
        d = gen.make(rnd, rnd.choice(['text', 'runs', 'uniform', 'concat']), rnd.choice([400000, 1200000]), 1)
        data = core.run([lb, '-%d' % rnd.choice([1, 2, 9]), '-n', '4'], stdin=d, timeout=120).out
        cs.append(dict(name='lbzip2-multiblock', data=data, variants=mkvariants(rnd, nvar // 2, False, len(data), len(d))))
    for i in range(ninv):
        k = rnd.random()
        if k < 0.5:
            try:
                data, kind = defects.make(rnd, rnd.choice(defects.DEFECTS))
            except core.HarnessError:
                raise
            except Exception:
                continue
            name = 'defect:' + kind
        else:
            base, plain, o = dcorpus.synth_valid(rnd, nstreams=rnd.randint(1, 3))
            data = base[:rnd.randrange(1, len(base))] if rnd.random() < 0.5 else bs.byte_mutate(rnd, base)
            name = 'damaged-synth'
        if len(data) > 60000:
            continue
        cs.append(dict(name=name, data=data, variants=mkvariants(rnd, nvar, True, len(data), plen(data))))
    core.pmap(lambda c: one(ctx, lb, c), cs, jobs=12)
    # in-process resumption
    per = 120 if q else 3000

    def shard(k):
        return inproc.run_codec('plain', ['rnd', per, ctx.seed * 977 + k, 2000, 1])
    for r, summ, mism in core.pmap(shard, range(16)):
        if r.rc != 0 or not summ:
            if lbz.bad_ending(ctx, r, 'codec_h resume', None, dict(argv=r.argv), 'inproc:'):
                continue
            ctx.harness_error('codec_h failed: %s %s' % (r.status, r.err[-300:]))
            continue
        ctx.ev(summ['cases'])
        ctx.count('inproc_cases', summ['cases'])
        ctx.count('inproc_resume_points', summ['resume_points'])
        ctx.count('inproc_emit_calls', summ['emit_calls'])
        ctx.count('inproc_fastpath_blocks', summ['fastpath_blocks'])
        for m in mism:
            kind = m.split()[1]
            if kind.startswith('resume'):
                ctx.violation('inproc:' + kind, m, {'harness_output.txt': r.out[-20000:]}, dict(argv=r.argv))
    ctx.assumptions = ['partial stdout of failing runs and diagnostic wording are schedule-dependent by design and are not compared (DESIGN 4.C09)']
