"""C17 File operands follow the documented naming and safety rules."""
import os, shutil, stat
from .. import core, lbz, fsmodel as fm

LEVEL = 'exploration'
T0 = 1_000_000_000


def build(rnd, lb, mode):
    """Create a scratch directory with one operand; return the spec."""
    d = core.tmpdir()
    plain = rnd.choice([b'', b'hello\n', rnd.randbytes(3000), b'abc' * 5000])
    comp = core.run([lb, '-%d' % rnd.randint(1, 9)], stdin=plain, timeout=60).out
    if mode == 'compress':
        stem = rnd.choice(['a', 'file.txt', 'x.tar', 'x.bz2.txt', 'arch.tbz', 'arch.tbz2', 'arch.tz2', 'data.bz2', '.bz2', 'b z', '-dash' if False else 'p.out'])
        content = plain
    else:
        stem = rnd.choice(['a.bz2', 'file.txt.bz2', 'arch.tbz', 'arch.tbz2', 'arch.tz2', 'noext', 'x.bz', 'y.tar', '.bz2', 'z.bz2.bz2', 'q.out'])
        content = comp
    kind = rnd.choice(['regular'] * 5 + ['symlink', 'hardlink', 'directory', 'missing', 'fifo'])
    flags = []
    for f, pr in (('-k', 0.35), ('-c', 0.2), ('-f', 0.2)):
        if rnd.random() < pr:
            flags.append(f)
    if mode == 'decompress' and '-c' not in flags and rnd.random() < 0.15:
        flags.append('-t')
    if '-f' in flags and kind not in ('regular', 'hardlink'):
        kind = 'regular'
    if kind == 'fifo' and any(f in flags for f in ('-c', '-t', '-f')):
        kind = 'regular'
    perm = rnd.choice([0o644, 0o600, 0o400, 0o755, 0o640, 0o4755, 0o2644, 0o1644, 0o666])
    at = T0 + rnd.randrange(10 ** 9) * 1
    mt = T0 + rnd.randrange(10 ** 9)
    at_ns = at * 10 ** 9 + rnd.randrange(10 ** 9)
    mt_ns = mt * 10 ** 9 + rnd.randrange(10 ** 9)
    p = os.path.join(d, stem)
    target = None
    if kind in ('regular', 'hardlink', 'symlink'):
        real = p if kind != 'symlink' else os.path.join(d, 'target.real')
        with open(real, 'wb') as f:
            f.write(content)
        os.chmod(real, perm)
        os.utime(real, ns=(at_ns, mt_ns))
        if kind == 'symlink':
            os.symlink('target.real', p)
        if kind == 'hardlink':
            os.link(p, os.path.join(d, 'other.link'))
    elif kind == 'directory':
        os.mkdir(p)
    elif kind == 'fifo':
        os.mkfifo(p)
    outname = stem + '.bz2' if mode == 'compress' else fm.decompressed_name(stem)
    pre = rnd.choice([None] * 4 + ['file', 'dir'])
    if pre and outname and outname != stem and not os.path.lexists(os.path.join(d, outname)):
        if pre == 'file':
            with open(os.path.join(d, outname), 'wb') as f:
                f.write(b'PRE-EXISTING OUTPUT')
            os.chmod(os.path.join(d, outname), 0o600)
        else:
            os.mkdir(os.path.join(d, outname))
    else:
        pre = None
    return dict(dir=d, stderr_full=rnd.random() < 0.2, mode=mode, stem=stem, kind=kind, flags=flags, perm=perm, at_ns=at_ns, mt_ns=mt_ns, plain=plain, comp=comp,
                content=content, outname=outname, pre=pre)


def expect(s):
    """The documented rules -> dict(skip=reason|None, status, writes_file, removes_input, stdout)."""
    fl = s['flags']
    regf = not ('-c' in fl or '-t' in fl)
    force = '-f' in fl
    keep = '-k' in fl
    kind = s['kind']
    skip = None
    if kind == 'missing':
        skip = 'missing'
    elif not force and regf and kind != 'regular' and kind != 'hardlink':
        skip = 'not regular'
    elif not force and regf and kind == 'hardlink' and not keep:
        skip = 'links'
    elif s['mode'] == 'compress' and fm.has_compr_suffix(s['stem']):
        skip = 'compressed suffix'
    elif kind == 'directory':
        skip = 'directory-read'           # -c/-t on a directory: open works, read fails: fatal; not generated with -f
    elif regf and s['outname'] == '':
        skip = 'empty output name'
    elif regf and s['pre'] == 'dir':
        skip = 'output exists (dir)'
    elif regf and s['pre'] == 'file' and not force:
        skip = 'output exists'
    return dict(skip=skip, regf=regf, force=force, keep=keep)


def one(ctx, lb, rnd_seed, s):
    d = s['dir']
    before = fm.snapshot(d)
    argv = [lb] + (['-d'] if s['mode'] == 'decompress' else ['-z']) + s['flags'] + ['-n', '2', '--', s['stem']]
    full = s.get('stderr_full')
    r = core.run(argv, cwd=d, timeout=60, stderr_path='/dev/full' if full else None)
    ctx.ev()
    after = fm.snapshot(d)
    shutil.rmtree(d, ignore_errors=True)
    e = expect(s)
    if full:
        # diagnostics cannot be written: the run may fail, but the safety rules still hold --
        # a skipped operand and a pre-existing output must be left exactly as they were
        desc = dict(mode=s['mode'], operand=s['stem'], kind=s['kind'], flags=s['flags'], preexisting_output=s['pre'], stderr='/dev/full',
                    expected_skip=e['skip'])
        info = dict(desc, argv=['lbzip2'] + argv[1:] + ['2>/dev/full'], before=fm.brief(before), after=fm.brief(after), status=r.status)
        if lbz.bad_ending(ctx, r, 'operand run %s' % desc, None, info):
            return
        if e['skip'] and e['skip'] != 'directory-read' and not fm.same_ignoring_atime(before, after):
            ctx.violation('skip-touched-when-stderr-fails:%s:%s' % (s['mode'], s['kind']),
                          'operand to be skipped (%s) but the directory changed when the warning could not be written: %s | %s'
                          % (e['skip'], fm.changed_names(before, after), desc), None, info)
            return
        if s['pre'] == 'file' and '-f' not in s['flags'] and after.get(s['outname'], (None, None))[1] != b'PRE-EXISTING OUTPUT':
            ctx.violation('existing-output-modified-when-stderr-fails:' + s['mode'], 'pre-existing output changed without -f: %s' % desc, None, info)
            return
        ctx.count('runs_with_failing_stderr')
        ctx.nt((s['mode'], s['stem'], s['kind'], tuple(s['flags']), s['perm'], s['pre'], 'stderr-full'))
        return
    desc = dict(mode=s['mode'], operand=s['stem'], kind=s['kind'], flags=s['flags'], perm=oct(s['perm']), preexisting_output=s['pre'],
                expected_skip=e['skip'])
    info = dict(desc, argv=['lbzip2'] + argv[1:], before=fm.brief(before), after=fm.brief(after), status=r.status,
                stderr=r.err[:300].decode(errors='replace'))
    if lbz.bad_ending(ctx, r, 'operand run %s' % desc, None, info):
        return
    key = '%s:%s' % (s['mode'], s['kind'])
    problems = []
    result = s['comp'] if s['mode'] == 'decompress' else None
    if e['skip'] == 'directory-read':
        if r.rc != 1:
            problems.append(('dir-status', 'reading a directory operand with -c/-t should be fatal (exit 1), got %s' % r.status))
        if not fm.same_ignoring_atime(before, after):
            problems.append(('dir-touched', 'directory changed: %s' % fm.changed_names(before, after)))
    elif e['skip']:
        if r.rc != 4:
            problems.append(('skip-status', 'operand should be skipped with a warning (exit 4) because: %s; got %s' % (e['skip'], r.status)))
        if not r.err.strip():
            problems.append(('skip-silent', 'skipped operand without a warning'))
        if not fm.same_ignoring_atime(before, after):
            problems.append(('skip-touched', 'skipped operand but the directory changed: %s' % fm.changed_names(before, after)))
        if r.out:
            problems.append(('skip-stdout', 'skipped operand wrote %d bytes to stdout' % len(r.out)))
    else:
        warn_expected = bool(s['perm'] & 0o7000) and e['regf']
        want_rc = 4 if warn_expected else 0
        if r.rc != want_rc:
            problems.append(('status', 'exit %s, expected %d (stderr %r)' % (r.status, want_rc, r.err[:120])))
        if bool(r.err.strip()) != warn_expected:
            problems.append(('stderr', 'unexpected diagnostics %r' % r.err[:120] if r.err.strip() else 'missing setuid/setgid/sticky warning'))
        if e['regf']:
            o = after.get(s['outname'])
            if o is None or o[0] != 'file':
                problems.append(('no-output', 'output file %r missing' % s['outname']))
            else:
                good = (o[1] == s['plain']) if s['mode'] == 'decompress' else fm.bz2_ok(o[1], s['plain'])
                if not good:
                    problems.append(('output-content', 'output file content wrong (%d bytes)' % len(o[1])))
                if o[2] != (s['perm'] & 0o777):
                    problems.append(('output-mode', 'output mode %s, input permission bits %s' % (oct(o[2]), oct(s['perm'] & 0o777))))
                if (o[3], o[4]) != (s['at_ns'], s['mt_ns']):
                    problems.append(('output-times', 'output times %s/%s differ from the input\'s %s/%s' % (o[3], o[4], s['at_ns'], s['mt_ns'])))
            gone = s['stem'] not in after
            if gone != (not e['keep']):
                problems.append(('input-removal', 'input %s although flags are %s' % ('removed' if gone else 'kept', s['flags'])))
            if s['kind'] == 'hardlink' and 'other.link' not in after:
                problems.append(('other-link', 'the other hard link disappeared'))
            for n in after:
                if n not in before and n != s['outname']:
                    problems.append(('stray', 'unexpected new file %r' % n))
            for n in before:
                if n not in (s['stem'], s['outname']) and before[n][:3] != after.get(n, (None,))[:3]:
                    problems.append(('bystander', 'unrelated entry %r changed' % n))
        else:
            # -c / -t: nothing in the directory may change (atime of the input may)
            for n in set(before) | set(after):
                b, a = before.get(n), after.get(n)
                if b is None or a is None or b[:3] != a[:3] or b[4] != a[4]:
                    problems.append(('c-t-touched', 'entry %r changed with %s' % (n, s['flags'])))
            if '-t' in s['flags']:
                if r.out:
                    problems.append(('t-stdout', '-t wrote to stdout'))
            else:
                good = (r.out == s['plain']) if s['mode'] == 'decompress' else fm.bz2_ok(r.out, s['plain'])
                if not good:
                    problems.append(('c-stdout', '-c output wrong (%d bytes)' % len(r.out)))
    if problems:
        ctx.violation('%s:%s' % (problems[0][0], key), '; '.join(p[1] for p in problems[:4]) + ' | %s' % desc, None, info)
        return
    ctx.nt((s['mode'], s['stem'], s['kind'], tuple(s['flags']), s['perm'], s['pre']))
    ctx.count('outcome:' + (e['skip'] or 'processed'))
    ctx.sample(dict(desc, status=r.status), cap=8)


def run(ctx):
    ctx.rule = ('scratch directories built from seeded specs: operand type (regular, symlink, hard-linked, directory, FIFO, missing) x suffix '
                '(none, .bz2, .tbz, .tbz2, .tz2, .tar, bare suffix, ...) x pre-existing output (file, directory) x mode bits (incl. setuid/'
                'setgid/sticky) x nanosecond timestamps x mode x subsets of -k/-c/-t/-f; compared with an executable model of the documented '
                'rules: skips warn with exit 4 and touch nothing, output name by the suffix rules, output gets the input permission bits and '
                'atime/mtime, input removed iff none of -k/-c/-t, existing output untouched unless -f; non-trivial = distinct configuration')
    q = ctx.quick()
    rnd = ctx.rng('specs')
    lb = core.build_lbzip2('hook')
    specs = [build(rnd, lb, rnd.choice(['compress', 'decompress'])) for _ in range(400 if q else 10000)]
    core.pmap(lambda s: one(ctx, lb, 0, s), specs)
    ctx.assumptions = ['checks run as root: permission-denied operands cannot be produced', 'only documented flag combinations are generated']
