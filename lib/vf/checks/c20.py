"""C20 Prefix tables are optimal for the symbols they code."""
import hashlib
from .. import core, streams, pm, lbz

LEVEL = 'exploration'


def one(ctx, lb, c):
    streams.materialise(c)
    res = streams.compress(ctx, lb, c, tables=True)
    ctx.ev()
    if res is None:
        return
    r, verdict, inf, desc, files, info = res
    files = dict(files, **{'compressed.bz2': r.out})
    if verdict != 'VALID':
        ctx.violation('stream-invalid', 'output not valid (%s) on %s' % (inf['reason'], desc), files, info)
        return
    seen = False
    for st in inf['streams']:
        for bi, b in enumerate(st['blocks']):
            for ti, t in enumerate(b['tables']):
                if max(t['len']) > 20:
                    ctx.violation('length-over-20', 'block %d table %d has a code longer than 20 on %s' % (bi, ti, desc), files, info)
                    return
                if t['used'] == 0:
                    ctx.count('unused_tables_skipped')
                    continue
                cost = sum(f * l for f, l in zip(t['cnt'], t['len']))
                L = max(t['len'])
                opt = pm.pm_cost(t['cnt'], L)
                ctx.count('used_tables_checked')
                ctx.maxmon('max_code_length_seen', L)
                if L >= 17:
                    ctx.count('tables_with_length_17_or_more')
                if opt is None or cost != opt:
                    if opt is not None and cost < opt:
                        ctx.harness_error('oracle claims optimum %d above real cost %d' % (opt, cost))
                        return
                    ctx.violation('suboptimal-table', 'block %d table %d: coded length %d > optimum %s for max length %d (alphabet %d) on %s'
                                  % (bi, ti, cost, opt, L, len(t['len']), desc), files,
                                  dict(info, counts=t['cnt'], lengths=t['len']))
                    return
                seen = True
    if seen:
        ctx.nt((hashlib.sha1(c['data']).hexdigest(), c['level'], c['ultra']))
        b0 = inf['streams'][0]['blocks'][0]
        ctx.sample(dict(desc, first_table_lengths=b0['tables'][0]['len'][:24], first_table_counts=b0['tables'][0]['cnt'][:24]))


def run(ctx):
    ctx.rule = ('every used table of every block of generated streams: sum(count*length) over the symbols actually coded with it '
                'must equal the independent package-merge optimum for the table\'s own longest code (zero-count symbols free); '
                'in-process: assign_codes() on seeded frequency vectors for alphabet sizes 3..258 (flat, random, geometric, Fibonacci, '
                'many zeros, one dominant); non-trivial = distinct (input sha1, level, mode) with at least one used table checked, '
                'plus distinct in-process (alphabet size, frequency vector) pairs')
    err = pm.selftest(ctx.rng('selftest'))
    if err:
        ctx.harness_error(err)
        return
    q = ctx.quick()
    lb = core.build_lbzip2('hook')
    rnd = ctx.rng('skew')
    cs = streams.expand_generated(streams.compress_cases(ctx, 100 if q else 2500, 120 if q else 2500))[::1]
    # skewed inputs: deep trees
    from .. import gen
    for i in range(40 if q else 800):
        d = gen.skewed(rnd, rnd.choice([3000, 50000, 300000]))
        cs.append(dict(fam='skewed', data=d, level=rnd.choice([1, 5, 9]), ultra=False, w=2, env={}, i=len(cs)))
    # tiny alphabets whose statistics drift from block to block, few workers: every worker builds many tables of the
    # same small alphabet size one after the other (any state carried from one table to the next would show here)
    for i in range(24 if q else 400):
        lvl = rnd.choice([1, 1, 2])
        d = gen.tiny_alphabet_drift(rnd, rnd.choice([4, 7, 13]) * 100000 * lvl, seg=rnd.choice([50000, 100000]) * lvl)
        cs.append(dict(fam='tiny-alphabet-drift', data=d, level=lvl, ultra=False, w=rnd.choice([1, 1, 2, 3]), env={}, i=len(cs)))
    core.pmap(lambda c: one(ctx, lb, c), cs)
    # in-process
    try:
        exe = core.build_harness('huff_h', 'huff_h.c', ['-O1', '-g', '-fsanitize=address,undefined', '-fno-sanitize-recover=all'],
                                 link_repo=['crctab.c', 'divbwt.c'])
    except core.HarnessError as e:
        ctx.count('inproc_unavailable')
        ctx.inconclusive_notes.append('assign_codes() not reachable in-process: %s' % str(e)[:200])
        exe = None
    if exe:
        per = 320 if q else 12000

        def job(k):
            return core.run([exe, str(per), str(ctx.seed * 131 + k)], timeout=1800,
                            env={'ASAN_OPTIONS': 'detect_leaks=0'})
        for r in core.pmap(job, range(16)):
            if r.rc != 0:
                if lbz.bad_ending(ctx, r, 'huff_h', None, dict(argv=r.argv), 'inproc:'):
                    continue
                ctx.violation('inproc:sanitizer-or-crash', 'huff_h ended %s: %s' % (r.status, r.err[-400:]), {'stderr.txt': r.err}, dict(argv=r.argv))
                continue
            for line in r.out.decode().split('\n'):
                if not line.startswith('T '):
                    continue
                _, as_, maxlen, cost, kr, fs, ls = line.split()
                f = [int(x) for x in fs.split(',')]
                L = int(maxlen); cost = int(cost)
                ctx.ev()
                ctx.count('inproc_vectors')
                ctx.maxmon('inproc_max_code_length', L)
                if L == 20:
                    ctx.count('inproc_vectors_hitting_length_20')
                if kr != '1' or L > 20:
                    ctx.violation('inproc:incomplete-or-too-long', 'assign_codes gave an incomplete code or length > 20: ' + line[:300], None, dict(argv=r.argv))
                    continue
                opt = pm.pm_cost(f, L)
                if opt != cost:
                    ctx.violation('inproc:suboptimal', 'assign_codes cost %d != optimum %s (alphabet %s, max length %d)' % (cost, opt, as_, L),
                                  {'case.txt': line}, dict(argv=r.argv))
                else:
                    ctx.nt(('vec', hashlib.sha1(fs.encode()).hexdigest()[:16]))
        if not ctx.monitors.get('inproc_vectors_hitting_length_20'):
            ctx.harness_error('no in-process vector made the 20-bit limit bind')
    ctx.assumptions = ['package-merge oracle validated against brute force at every run (self-test)',
                       'optimality is judged for the table\'s own longest code (DESIGN 4.C20)']
