"""C04 Block boundaries follow the greedy run-length packing rule."""
import hashlib
from .. import core, streams, inproc, lbz, gen

LEVEL = 'exploration'
KINDS = ('consumed', 'rle-content', 'over-capacity', 'collect-left-input-without-full')


def one(ctx, lb, c):
    streams.materialise(c)
    res = streams.compress(ctx, lb, c)
    ctx.ev()
    if res is None:
        return
    r, verdict, inf, desc, files, info = res
    files = dict(files, **{'compressed.bz2': r.out})
    if verdict != 'VALID' or len(inf['streams']) != 1:
        ctx.violation('stream-invalid', 'output not a single valid stream (%s) on %s' % (inf['reason'], desc), files, info)
        return
    cap = c['level'] * 100000
    want = streams.packmodel(c['data'], cap, 0 if c['ultra'] else cap)
    got = [(b['out'], b['nblock'], b['crc']) for b in inf['streams'][0]['blocks']]
    if want != got:
        k = 0
        while k < min(len(want), len(got)) and want[k] == got[k]:
            k += 1
        ctx.violation('process:block-list', 'block list differs from the packing model at block %d: model %s real %s (%d vs %d blocks) on %s'
                      % (k, want[k:k + 1], got[k:k + 1], len(want), len(got), desc), files, dict(info, model=want[:50], real=got[:50]))
        return
    ctx.count('process_streams')
    ctx.count('process_blocks', len(got))
    if c.get('feed'):
        ctx.count('inputs_delivered_in_fragments')
        if len(c['feed']) > 2:
            ctx.count('inputs_with_a_producer_pause')
    if len(got) >= 2 or c['fam'] == 'boundary':
        ctx.nt((hashlib.sha1(c['data']).hexdigest(), c['level'], c['ultra']))
        ctx.sample(dict(desc, blocks=got[:3]))
    # blocks that end exactly at / one short of capacity show the boundary rule at work
    for (_o, nb, _c) in got[:-1]:
        if nb >= cap - 4:
            ctx.count('blocks_filled_to_within_4_of_capacity')


def boundary_cases(ctx, n):
    rnd = ctx.rng('boundary')
    cs = []
    for i in range(n):
        level = rnd.choice([1, 1, 1, 2, 3]) if ctx.quick() else rnd.randint(1, 9)
        ultra = rnd.random() < 0.5
        d = gen.boundary(rnd, level)
        if ultra and rnd.random() < 0.5:
            # blocks spanning 2-3 chunks: long compressible stretch before the boundary
            d = bytes([rnd.randrange(256)]) * (level * 100000 * rnd.choice([1, 2]) + rnd.randint(0, 999)) + d
        cs.append(dict(fam='boundary', data=d, level=level, ultra=ultra, w=rnd.choice([1, 2, 4, 8]),
                       env=lbz.sched_env(rnd) if rnd.random() < 0.3 else {}, i=i))
    return cs


def run(ctx):
    ctx.rule = ('in-process: the real collect() against the packing model for EVERY input over {a,b} up to length L2 and {a,b,c} up to '
                'L3, every capacity 1..C, every 2-way split plus 1-byte and seeded 3-way splits (exhaustive within these bounds), then '
                'seeded long-run inputs with capacities up to 2000; process level: per-block (input bytes, RLE size, CRC) recovered '
                'from real streams equals the model for both modes; non-trivial process case = >= 2 blocks or boundary-targeted input')
    q = ctx.quick()
    L2, L3, C = (12, 8, 10) if q else (14, 9, 12)
    shards = 32

    def exh(job):
        alpha, L, k = job
        return job, inproc.run_codec('plain', ['exh', alpha, L, C, k, shards], timeout=3600)
    jobs = [(2, L2, k) for k in range(shards)] + [(3, L3, k) for k in range(shards)]

    def rndjob(k):
        return ('rnd', k), inproc.run_codec('plain', ['rnd', 1500 if q else 40000, ctx.seed * 7919 + k, 2000, 0], timeout=3600)
    results = core.pmap(exh, jobs) + core.pmap(rndjob, range(16))
    complete = True
    for job, (r, summ, mism) in results:
        if r.rc != 0 or not summ:
            complete = False
            if lbz.bad_ending(ctx, r, 'codec_h %s' % (job,), None, dict(argv=r.argv), 'inproc:'):
                continue
            ctx.harness_error('codec_h %s failed: %s %s' % (job, r.status, r.err[-300:]))
            continue
        ctx.ev(summ['cases'])
        ctx.count('inproc_cases_exhaustive' if job[0] != 'rnd' else 'inproc_cases_seeded', summ['cases'])
        ctx.count('inproc_blocks', summ['blocks'])
        ctx.count('inproc_collect_calls', summ['collect_calls'])
        ctx.count('inproc_splits_inside_a_run', summ['split_in_run'])
        for m in mism:
            kind = m.split()[1]
            if kind in KINDS:
                ctx.violation('inproc:' + kind, m, {'harness_output.txt': r.out[-20000:]}, dict(argv=r.argv))
    ctx.extra['exhaustive_bounds'] = {'alphabet2_maxlen': L2, 'alphabet3_maxlen': L3, 'max_capacity': C,
                                      'splits': 'whole, every 2-way cut, 1-byte, one seeded 3-way incl. empty buffers',
                                      'completed': complete}
    # distinct inputs enumerated exhaustively are all distinct by construction
    n_exh = sum(2 ** l for l in range(1, L2 + 1)) + sum(3 ** l for l in range(1, L3 + 1))
    if complete:
        for i in range(min(n_exh, 4)):
            ctx.nt(('exhaustive-input-class', i))
        ctx.extra['exhaustive_distinct_inputs'] = n_exh
    lb = core.build_lbzip2('hook')
    cs = [c for c in streams.compress_cases(ctx, 120 if q else 2000, 40 if q else 500) if not c.get('gen')] + boundary_cases(ctx, 80 if q else 1500)
    # how the bytes arrive must not move a cut: a seeded share of the inputs comes through a pipe in fragments, some with a
    # producer that goes quiet for 0.3-0.45 s at an arbitrary offset
    rf = ctx.rng('delivery')
    for c in cs:
        k = rf.random()
        if k < 0.15:
            c['feed'] = ([rf.choice([4096, 65536, 99999, 100001])], 0)
            if k >= 0.05:
                c['feed'] += ([(rf.random(), rf.choice([0.3, 0.45]))],)
    core.pmap(lambda c: one(ctx, lb, c), cs)
    ctx.assumptions = ['the packing model (native/packmodel.c, codec_h.c:model_block) is the executable reading of the property']
