"""Driver for the LD_PRELOAD syscall shim (native/ioshim.c)."""
import os, struct
from . import core

KINDS = ['read', 'write', 'close', 'open', 'unlink', 'fchown', 'fchmod', 'futimens']


def read_counts(path):
    try:
        with open(path, 'rb') as f:
            raw = f.read()
        v = struct.unpack('<16Q', raw.ljust(128, b'\0')[:128])
    except FileNotFoundError:
        v = [0] * 16
    d = dict(zip(KINDS, v[:8]))
    d['fired'] = v[8]
    return d


def run(exe, args, rule=None, short=None, **kw):
    """Run exe under the shim.  rule: 'kind:n:action:arg'.  Returns (Res, counts)."""
    shim = core.build_native('ioshim')
    cnt = core.tmppath('.cnt')
    env = dict(kw.pop('env', None) or {})
    env.update({'LD_PRELOAD': shim, 'IOSHIM_COUNTS': cnt})
    if rule:
        env['IOSHIM_RULE'] = rule
    if short:
        env['IOSHIM_SHORT'] = str(short)
    r = core.run([exe] + args, env=env, **kw)
    c = read_counts(cnt)
    try:
        os.unlink(cnt)
    except OSError:
        pass
    return r, c
