"""Single-defect bzip2 streams (synthesizer) and field-aware mutations."""
from . import bzsynth as bs, ora


def bijective(n):
    """RUNA/RUNB digits (0/1) whose run length is n >= 1."""
    out = []
    while n > 0:
        if n & 1:
            out.append(0); n = (n - 1) >> 1
        else:
            out.append(1); n = (n - 2) >> 1
    return out


def big_run_block(rnd, nblock, byte=None):
    """A block whose BWT column is nblock copies of one byte."""
    b = bs.Block([rnd.randrange(256) if byte is None else byte], bijective(nblock), [[1, 2, 2], [2, 1, 2]],
                 [rnd.randint(0, 1)])
    b.orig = rnd.randrange(nblock)
    return b


def small_valid_blocks(rnd, level, n):
    return [bs.rand_block(rnd, level, nsyms=rnd.choice([1, 20, 60, 120, 400]),
                          opts=rnd.sample(['surplus', 'badunused', 'wiggle', 'rand', 'deep'], rnd.randint(0, 2)))
            for _ in range(n)]


def _excursion_bits(lens, rnd, kind):
    """Delta bits for a table with one excursion outside 1..20."""
    i = rnd.randrange(len(lens))
    cur = lens[0]
    out = [format(cur, '05b')]
    for j, l in enumerate(lens):
        while cur < l:
            out.append('10'); cur += 1
        while cur > l:
            out.append('11'); cur -= 1
        if j == i:
            over = rnd.randint(1, 2)
            if kind == 'low-return':
                k = cur - 1 + over
                out.append('11' * k + '10' * k)
            elif kind == 'high-return':
                k = 20 - cur + over
                out.append('10' * k + '11' * k)
            elif kind == 'low-stay':
                k = cur - 1 + over
                out.append('11' * k); cur -= k
            elif kind == 'high-stay':
                k = 20 - cur + over
                out.append('10' * k); cur += k
        out.append('0')
    return ''.join(out)


DEFECTS = ['delta-low-return', 'delta-high-return', 'delta-low-stay', 'delta-high-stay', 'delta-start-0', 'delta-start-21plus',
           'bad-selector', 'ntrees-0', 'ntrees-1', 'ntrees-7', 'nsel-0', 'empty-bitmap', 'oversub-used', 'incomplete-used',
           'missing-eob', 'nsel-short', 'orig-eq-size', 'orig-gt-size', 'capacity-plus-1', 'capacity-plus-run',
           'bad-block-crc', 'bad-stream-crc', 'block-magic-bit', 'eos-magic-bit', 'header-digit-0', 'header-digit-colon',
           'second-header-digit-0', 'truncated-second-stream', 'surplus-bad-selector', 'missing-runlen',
           'trailing-full-header', 'huge-run']


def make(rnd, kind):
    """Return (bytes, note).  The stream is valid except for the named defect."""
    level = rnd.randint(1, 9)
    nb = rnd.choice([1, 2, 3])
    pos = rnd.randrange(nb)
    blocks = small_valid_blocks(rnd, level, nb)
    b = blocks[pos]
    s1 = bs.Stream(level, blocks)
    streams = [s1]
    if rnd.random() < 0.4:
        other = bs.Stream(rnd.randint(1, 9), small_valid_blocks(rnd, 1, rnd.choice([0, 1, 2])))
        streams = [other, s1] if rnd.random() < 0.5 else [s1, other]
    trailing = b''
    post = None
    tsel = rnd.randrange(len(b.tables))
    if kind.startswith('delta-') and 'start' not in kind:
        tb = [None] * len(b.tables)
        tb[tsel] = _excursion_bits(b.tables[tsel], rnd, kind[6:])
        if b.table_bits:
            tb = [x if x is not None else y for x, y in zip(tb, b.table_bits)]
        b.table_bits = tb
        if 'stay' in kind:
            pass
    elif kind == 'delta-start-0':
        tb = list(b.table_bits or [None] * len(b.tables))
        tb[tsel] = '00000' + bs.delta_bits(b.tables[tsel], start=0)[5:]
        b.table_bits = tb
    elif kind == 'delta-start-21plus':
        st = rnd.randint(21, 31)
        tb = list(b.table_bits or [None] * len(b.tables))
        tb[tsel] = bs.delta_bits(b.tables[tsel], start=st)
        b.table_bits = tb
    elif kind == 'bad-selector':
        nt = len(b.tables)
        good = []
        mtf = list(range(6))
        for s in b.sels:
            k = mtf.index(s); good.append('1' * k + '0'); mtf.pop(k); mtf.insert(0, s)
        i = rnd.randrange(len(good))
        good[i] = '1' * rnd.randint(nt, 6) + '0'
        b.sel_bits = ''.join(good)
    elif kind == 'surplus-bad-selector':
        nt = len(b.tables)
        mtf = list(range(6)); good = []
        for s in b.sels:
            k = mtf.index(s); good.append('1' * k + '0'); mtf.pop(k); mtf.insert(0, s)
        extra = rnd.choice([1, 5, 300])
        good += ['0'] * (extra - 1) + ['1' * nt + '0']
        b.sel_bits = ''.join(good)
        b.nsel = len(b.sels) + extra
    elif kind in ('ntrees-0', 'ntrees-1', 'ntrees-7'):
        b.ntrees = int(kind[-1])
    elif kind == 'nsel-0':
        b.nsel = 0
    elif kind == 'empty-bitmap':
        b.used = []
    elif kind in ('oversub-used', 'incomplete-used'):
        a = b.alpha
        if kind == 'oversub-used':
            lens = [max(1, l - 1) if i < 2 else l for i, l in enumerate(b.tables[tsel])]
            if bs.kraft(lens) <= 0:
                lens = [1] * a
        else:
            lens = [min(20, l + 1) if i == a - 1 else l for i, l in enumerate(b.tables[tsel])]
            if bs.kraft(lens) >= 0:
                lens = [min(20, l + 2) for l in b.tables[tsel]]
        b.tables[tsel] = lens
        b.table_bits = None
        b.sels = [tsel if rnd.random() < 0.5 else s for s in b.sels]
        b.sels[rnd.randrange(len(b.sels))] = tsel
    elif kind == 'missing-eob':
        b.eob = False
        n = len(b.syms)
        b.sels = b.sels[:max(1, (n + 49) // 50)]
        if n % 50:
            b.syms = b.syms + [b.syms[-1] if b.syms[-1] > 1 else 0] * 0
        # pad symbols to fill the last group completely so the decoder runs out of selectors
        while len(b.syms) % 50:
            b.syms.append(0 if b.syms and b.syms[-1] > 1 else (2 if b.alpha > 3 else 0))
        b.sels = (b.sels + [b.sels[-1]] * 40)[:len(b.syms) // 50]
        b.nsel = None
    elif kind == 'nsel-short':
        need = (len(b.syms) + 1 + 49) // 50
        if need < 2:
            b.syms = (b.syms * 60)[:120] if b.syms else [0] * 3
            need = (len(b.syms) + 1 + 49) // 50
            b.sels = (b.sels * 10)[:need]
            if b.nblock() > level * 100000 or b.nblock() == 0:
                b.syms = [0]
        need = (len(b.syms) + 1 + 49) // 50
        if need >= 2:
            b.nsel = need - 1
            b.sel_bits = None
            b.sels = (b.sels * 3)[:need]
            # write only need-1 selectors but code need groups
            full = b.sels
            mtf = list(range(6)); bits = []
            for s in full[:need - 1]:
                k = mtf.index(s); bits.append('1' * k + '0'); mtf.pop(k); mtf.insert(0, s)
            b.sel_bits = ''.join(bits)
        else:
            kind = 'nsel-0'; b.nsel = 0
    elif kind == 'orig-eq-size':
        b.orig = b.nblock()
    elif kind == 'orig-gt-size':
        b.orig = min((1 << 24) - 1, b.nblock() + rnd.choice([1, 2, 1000, 1 << 20]))
    elif kind in ('capacity-plus-1', 'capacity-plus-run'):
        over = 1 if kind.endswith('1') else rnd.choice([2, 3, 100, 5000])
        nbk = level * 100000 + over
        blocks[pos] = big_run_block(rnd, nbk)
    elif kind == 'huge-run':
        blk = big_run_block(rnd, 5)
        blk.syms = [rnd.randint(0, 1) for _ in range(rnd.choice([20, 21, 22, 24, 30, 40]))]
        blk.orig = 0
        blocks[pos] = blk
    elif kind == 'bad-block-crc':
        post = ('blockcrc', pos)
    elif kind == 'bad-stream-crc':
        post = ('streamcrc', None)
    elif kind == 'block-magic-bit':
        b.magic = bs.BLOCK_MAGIC ^ (1 << rnd.randrange(48))
    elif kind == 'eos-magic-bit':
        s1.eos_magic = bs.EOS_MAGIC ^ (1 << rnd.randrange(48))
    elif kind == 'header-digit-0':
        streams = [s1] + [s for s in streams if s is not s1]
        s1.header = b'BZh0'
    elif kind == 'header-digit-colon':
        streams = [s1] + [s for s in streams if s is not s1]
        s1.header = b'BZh:'
    elif kind == 'second-header-digit-0':
        # not a full header: must be ignored as trailing garbage -> VALID
        other = bs.Stream(1, small_valid_blocks(rnd, 1, 1)); other.header = b'BZh0'
        streams = [s1, other]
    elif kind == 'truncated-second-stream':
        post = ('truncsecond', None)
    elif kind == 'missing-runlen':
        # all-zero BWT column of 5k+4 bytes decodes to k runs "0000"+count 0 and a final "0000" with no count
        blk = big_run_block(rnd, 5 * rnd.choice([0, 0, 1, 2, 7, 200, 3000]) + 4, byte=0) if rnd.random() < 0.7 else big_run_block(rnd, 4)
        blocks[pos] = blk
    elif kind == 'trailing-full-header':
        trailing = b'BZh' + bytes([0x30 + rnd.randint(1, 9)]) + rnd.randbytes(rnd.choice([0, 1, 5, 40]))
    else:
        raise ValueError(kind)
    data = bs.build(streams, trailing=trailing)
    if post:
        v, info, _ = ora.refbz(data, want_out=False)
        try:
            if post[0] == 'blockcrc':
                st = info['streams'][streams.index(s1)]
                at = st['blocks'][post[1]]['crc_at'] + rnd.randrange(32)
                data = bs.flip_bit(data, at)
            elif post[0] == 'streamcrc':
                st = info['streams'][streams.index(s1)]
                data = bs.flip_bit(data, st['scrc_at'] + rnd.randrange(32))
            elif post[0] == 'truncsecond':
                second = bs.build([bs.Stream(rnd.randint(1, 9), small_valid_blocks(rnd, 1, 1))])
                cut = rnd.randint(4, max(4, len(second) - 1))
                data = data + second[:cut]
        except (IndexError, KeyError):
            pass
    return data, kind


def field_mutants(rnd, data, info, n):
    """Field-aware single-bit mutations located with the reference field map."""
    out = []
    fields = []
    for st in info['streams']:
        fields.append(('stream-header', st['hdr_at'], 32))
        for b in st['blocks']:
            fields.append(('block-magic', b['magic_at'], 48))
            fields.append(('block-crc', b['crc_at'], 32))
            fields.append(('rand+orig', b['crc_at'] + 32, 25))
            fields.append(('bitmap', b['crc_at'] + 57, 16))
            fields.append(('block-body', b['crc_at'] + 73, max(1, b['end_at'] - b['crc_at'] - 73)))
        if 'eos_at' in st:
            fields.append(('eos-magic', st['eos_at'], 48))
        if 'scrc_at' in st:
            fields.append(('stream-crc', st['scrc_at'], 32))
    if not fields:
        return out
    for _ in range(n):
        name, at, ln = rnd.choice(fields)
        bit = at + rnd.randrange(ln)
        if bit < len(data) * 8:
            out.append((bs.flip_bit(data, bit), 'flip:' + name))
    return out
