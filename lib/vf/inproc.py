"""Driver for the in-process codec harness (native/codec_h.c)."""
import os, re, subprocess
from . import core

FLAVOURS = {
    'plain': ('gcc', ['-O2', '-g']),
    'asan': ('gcc', ['-O1', '-g', '-fno-omit-frame-pointer', '-fsanitize=address,undefined',
                     '-fno-sanitize-recover=all']),
    'msan': ('clang', ['-O1', '-g', '-fsanitize=memory', '-fsanitize-memory-track-origins',
                       '-fno-omit-frame-pointer']),
}
SAN_ENV = {
    'ASAN_OPTIONS': 'quarantine_size_mb=8:detect_leaks=0:abort_on_error=0:exitcode=99',
    'UBSAN_OPTIONS': 'print_stacktrace=1:halt_on_error=1:exitcode=99',
    'MSAN_OPTIONS': 'exitcode=99',
}


def codec_h(flavour):
    cc, flags = FLAVOURS[flavour]
    return core.build_harness('codec_h_' + flavour, 'codec_h.c', flags, cc=cc,
                              link_repo=['decode.c', 'crctab.c', 'divbwt.c'])


def run_codec(flavour, args, timeout=1800, stdin=None):
    exe = codec_h(flavour)
    r = core.run([exe] + [str(a) for a in args], env=SAN_ENV, timeout=timeout, stdin=stdin)
    summ = {}
    m = re.search(rb'SUMMARY (.*)', r.out)
    if m:
        for kv in m.group(1).decode().split():
            k, v = kv.split('=')
            summ[k] = int(v)
    mism = [l.decode(errors='replace') for l in r.out.split(b'\n') if l.startswith(b'MISMATCH')]
    return r, summ, mism
