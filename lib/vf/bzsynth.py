"""Bit-level bzip2 stream synthesizer at the MTF-symbol level, plus mutators.

Any symbol sequence is made a valid block by computing CRCs from the reference
decoding (refbz --nocrc --lax) and patching them in.
"""
import heapq, random
from . import core, ora

BLOCK_MAGIC = 0x314159265359
EOS_MAGIC = 0x177245385090


class BW:
    def __init__(self):
        self.parts = []
        self.n = 0

    def put(self, v, n):
        if n:
            self.parts.append(format(v & ((1 << n) - 1), '0%db' % n))
            self.n += n

    def puts(self, s):
        self.parts.append(s)
        self.n += len(s)

    def align(self):
        r = (-self.n) % 8
        if r:
            self.put(0, r)

    def tobytes(self):
        s = ''.join(self.parts)
        s += '0' * ((-len(s)) % 8)
        if not s:
            return b''
        return int(s, 2).to_bytes(len(s) // 8, 'big')


def canon_codes(lengths):
    """bzip2 canonical code assignment -> list of bit strings per symbol."""
    codes = [None] * len(lengths)
    code = 0
    for l in range(1, max(lengths) + 1):
        for s, ln in enumerate(lengths):
            if ln == l:
                codes[s] = format(code & ((1 << l) - 1), '0%db' % l)
                code += 1
        code <<= 1
    return codes


def kraft(lengths):
    return sum(1 << (20 - l) for l in lengths) - (1 << 20)


def huff_lengths(weights, maxlen=20):
    """Complete prefix code lengths for weights (>=2 symbols), max length bounded."""
    w = [max(1, int(x)) for x in weights]
    n = len(w)
    while True:
        h = [(x, i, None) for i, x in enumerate(w)]
        heapq.heapify(h)
        cnt = n
        parent = {}
        while len(h) > 1:
            a = heapq.heappop(h); b = heapq.heappop(h)
            parent[a[1]] = cnt; parent[b[1]] = cnt
            heapq.heappush(h, (a[0] + b[0], cnt, None))
            cnt += 1
        lens = []
        for i in range(n):
            d = 0; x = i
            while x in parent:
                x = parent[x]; d += 1
            lens.append(d)
        if max(lens) <= maxlen:
            return lens
        w = [1 + x // 2 for x in w]


def delta_bits(lengths, start=None, rnd=None, wiggle=0.0, lo=1, hi=20):
    """Bits transmitting a table: 5-bit start, then per symbol (10|11)* 0.
    wiggle: probability of inserting an in-range detour before a symbol's stop bit."""
    cur = lengths[0] if start is None else start
    out = [format(cur, '05b')]
    for l in lengths:
        while cur < l:
            out.append('10'); cur += 1
        while cur > l:
            out.append('11'); cur -= 1
        if rnd is not None and wiggle and rnd.random() < wiggle:
            k = rnd.randint(1, 3)
            if rnd.random() < 0.5 and cur + k <= hi:
                out.append('10' * k + '11' * k)
            elif cur - k >= lo:
                out.append('11' * k + '10' * k)
        out.append('0')
    return ''.join(out)


class Block:
    def __init__(self, used, syms, tables, sels, orig=0, rand=0):
        self.used = sorted(set(used))
        self.syms = list(syms)          # without EOB
        self.tables = [list(t) for t in tables]
        self.sels = list(sels)
        self.orig = orig
        self.rand = rand
        self.crc = 0
        self.magic = BLOCK_MAGIC
        self.nsel = None                # declared selector count override
        self.ntrees = None              # declared table count override
        self.table_bits = None          # list of explicit bit strings per table
        self.eob = True
        self.raw_tail = ''              # extra bits after the block
        self.sel_bits = None            # explicit selector MTF bit string

    @property
    def alpha(self):
        return len(self.used) + 2

    def nblock(self):
        """RLE'd block size implied by the symbols."""
        n = 0; run = 0; sh = 0
        for s in self.syms:
            if s <= 1:
                run += (s + 1) << sh; sh += 1
            else:
                n += run + 1; run = 0; sh = 0
        return n + run

    def write(self, bw):
        bw.put(self.magic, 48)
        bw.put(self.crc, 32)
        bw.put(self.rand, 1)
        bw.put(self.orig, 24)
        big = 0
        small = [0] * 16
        for b in self.used:
            small[b >> 4] |= 0x8000 >> (b & 15)
        for i in range(16):
            if small[i]:
                big |= 0x8000 >> i
        bw.put(big, 16)
        for i in range(16):
            if small[i]:
                bw.put(small[i], 16)
        nt = len(self.tables) if self.ntrees is None else self.ntrees
        bw.put(nt, 3)
        ns = len(self.sels) if self.nsel is None else self.nsel
        bw.put(ns, 15)
        if self.sel_bits is not None:
            bw.puts(self.sel_bits)
        else:
            mtf = list(range(6))
            out = []
            for s in self.sels:
                k = mtf.index(s)
                out.append('1' * k + '0')
                mtf.pop(k); mtf.insert(0, s)
            bw.puts(''.join(out))
        for t, lens in enumerate(self.tables):
            if self.table_bits is not None and self.table_bits[t] is not None:
                bw.puts(self.table_bits[t])
            else:
                bw.puts(delta_bits(lens))
        codes = [canon_codes(t) for t in self.tables]
        syms = self.syms + ([self.alpha - 1] if self.eob else [])
        out = []
        for g in range(0, len(syms), 50):
            c = codes[self.sels[g // 50]]
            out.append(''.join(c[s] for s in syms[g:g + 50]))
        bw.puts(''.join(out))
        if self.raw_tail:
            bw.puts(self.raw_tail)


class Stream:
    def __init__(self, level, blocks):
        self.level = level
        self.blocks = blocks
        self.scrc = 0
        self.header = None      # explicit 4 header bytes
        self.eos = True
        self.eos_magic = EOS_MAGIC
        self.pad_bits = None    # explicit padding bit string after the stream CRC

    def write(self, bw):
        hdr = self.header if self.header is not None else b'BZh' + bytes([0x30 + self.level])
        for b in hdr:
            bw.put(b, 8)
        for b in self.blocks:
            b.write(bw)
        if self.eos:
            bw.put(self.eos_magic, 48)
            bw.put(self.scrc, 32)
            if self.pad_bits is None:
                bw.align()
            else:
                bw.puts(self.pad_bits)


def _setbits(buf, at, n, v):
    for i in range(n):
        bit = (v >> (n - 1 - i)) & 1
        p = at + i
        if bit:
            buf[p >> 3] |= 0x80 >> (p & 7)
        else:
            buf[p >> 3] &= ~(0x80 >> (p & 7)) & 0xff


def getbits(buf, at, n):
    v = 0
    for i in range(n):
        p = at + i
        v = (v << 1) | ((buf[p >> 3] >> (7 - (p & 7))) & 1)
    return v


def fix_crcs(raw):
    """Patch every block/stream CRC field the lax reference decoder can reach."""
    buf = bytearray(raw)
    verdict, info, _ = ora.refbz(bytes(buf), nocrc=True, lax=True, want_out=False)
    for st in info['streams']:
        for b in st['blocks']:
            _setbits(buf, b['crc_at'], 32, b['crc'])
        if 'scrc_at' in st and st['scrc_at'] + 32 <= len(buf) * 8:
            _setbits(buf, st['scrc_at'], 32, st['scrc'])
    return bytes(buf)


def build(streams, trailing=b'', fix=True):
    bw = BW()
    for s in streams:
        s.write(bw)
    raw = bw.tobytes() + trailing
    return fix_crcs(raw) if fix else raw


# --------------------------------------------------------------------------
# random valid blocks

def rand_table(rnd, alpha, deep=False):
    if deep:
        w = [1, 1]
        while len(w) < alpha:
            w.append(w[-1] + w[-2] if len(w) < 21 else rnd.randint(1, 50))
        rnd.shuffle(w)
    else:
        style = rnd.random()
        if style < 0.3:
            w = [1] * alpha
        elif style < 0.7:
            w = [rnd.randint(1, 1000) for _ in range(alpha)]
        else:
            w = [int(2 ** rnd.uniform(0, 18)) for _ in range(alpha)]
    return huff_lengths(w)


def rand_block(rnd, level, nsyms=None, nin=None, ntrees=None, opts=()):
    """A random block description that is valid unless opts ask otherwise.
    opts: 'deep' 20-bit tables, 'surplus' extra selectors, 'badunused' an
    unused incomplete/oversubscribed table, 'rand' randomised, 'wiggle' detours
    in the delta paths, 'bigrun' long runs, 'maxorig' orig=nblock-1."""
    limit = level * 100000
    nin = nin or rnd.choice([1, 2, 3, 4, 16, 100, 254, 255, 256])
    used = sorted(rnd.sample(range(256), nin))
    alpha = nin + 2
    nsyms = nsyms if nsyms is not None else rnd.choice([0, 1, 2, 49, 50, 51, 99, 100, 101, 500, 3000])
    syms = []
    size = 0
    runmax = 17 if 'bigrun' in opts else 6
    lastrun = False
    guard = 0
    while len(syms) < nsyms and guard < 10 * nsyms + 100:
        guard += 1
        if not lastrun and rnd.random() < 0.35:
            k = rnd.randint(1, runmax)
            rs = [rnd.randint(0, 1) for _ in range(k)]
            run = sum((s + 1) << i for i, s in enumerate(rs))
            if size + run > limit - 2:
                break
            syms += rs; size += run
            lastrun = True
            if nin == 1:
                break
        elif nin > 1:
            if size + 1 > limit - 2:
                break
            # small MTF indices more often
            m = min(nin - 1, 1 + int(rnd.expovariate(0.3))) if rnd.random() < 0.7 else rnd.randint(1, nin - 1)
            syms.append(m + 1); size += 1
            lastrun = False
    if size == 0:
        syms = [0]; size = 1
    b = None
    ntrees = ntrees or rnd.randint(2, 6)
    tables = [rand_table(rnd, alpha, deep=('deep' in opts and t == 0)) for t in range(ntrees)]
    ngroups = (len(syms) + 1 + 49) // 50
    goodtabs = list(range(ntrees))
    if 'badunused' in opts and ntrees >= 3:
        bad = rnd.randrange(1, ntrees)
        goodtabs.remove(bad)
        if rnd.random() < 0.5:
            tables[bad] = [rnd.randint(1, 3) for _ in range(alpha)]      # oversubscribed (alpha>=3 -> likely)
        else:
            tables[bad] = [rnd.randint(15, 20) for _ in range(alpha)]    # incomplete
    sels = [rnd.choice(goodtabs) for _ in range(ngroups)]
    if 'surplus' in opts:
        extra = rnd.choice([1, 2, 7, 100, 18002 - ngroups, 20000 - ngroups, 32767 - ngroups])
        sels += [rnd.randrange(ntrees) for _ in range(max(0, extra))]
    b = Block(used, syms, tables, sels)
    nb = b.nblock()
    b.orig = nb - 1 if 'maxorig' in opts else rnd.randrange(nb)
    if 'rand' in opts:
        b.rand = 1
    if 'wiggle' in opts:
        b.table_bits = [delta_bits(t, rnd=rnd, wiggle=0.3) for t in tables]
    return b


def maxlen_block(rnd, level, ngroups=None):
    """A block with long stretches of 20-bit codes: coding groups that consume
    close to the format maximum of 1000 bits (50 codes x 20 bits)."""
    nin = 19 + rnd.choice([0, 0, 3, 40])
    used = sorted(rnd.sample(range(256), nin))
    alpha = nin + 2
    base = list(range(1, 20)) + [20, 20]
    if alpha > 21:
        # split the length-1 leaf into a complete subtree for the extra symbols
        extra = alpha - 21
        sub = [l + 1 for l in huff_lengths([1] * (extra + 1), maxlen=18)]
        base = sub + base[1:]
    lens = base[:]
    assert len(lens) == alpha and kraft(lens) == 0
    # put the two 20-bit codes on MTF symbols (not RUNA/RUNB/EOB)
    idx = list(range(alpha))
    long_syms = [i for i, l in enumerate(lens) if l == 20]
    perm = lens[:]
    mtf_slots = [i for i in range(2, alpha - 1)]
    a, b = rnd.sample(mtf_slots, 2)
    for src, dst in zip(long_syms, (a, b)):
        perm[src], perm[dst] = perm[dst], perm[src]
    lens = perm
    ngroups = ngroups or rnd.choice([5, 40, 150])
    syms = []
    for _ in range(rnd.randint(0, 60)):
        syms.append(rnd.randint(2, alpha - 2))
    for g in range(ngroups):
        k = rnd.choice([50, 50, 50, 49, 48, 30])
        syms += [rnd.choice((a, b)) for _ in range(k)]
        syms += [rnd.randint(2, alpha - 2) for _ in range(rnd.choice([0, 0, 1, 2, 7]))]
    other = rand_table(rnd, alpha)
    ng = (len(syms) + 1 + 49) // 50
    blk = Block(used, syms, [lens, other], [0] * ng)
    nb = blk.nblock()
    if nb > level * 100000:
        return maxlen_block(rnd, level, max(1, ngroups // 4))
    blk.orig = rnd.randrange(nb)
    return blk


def rand_stream(rnd, level=None, nblocks=None, opts=()):
    level = level or rnd.randint(1, 9)
    nblocks = rnd.choice([0, 1, 1, 2, 3, 5]) if nblocks is None else nblocks
    if 'maxlen' in opts:
        return Stream(level, [maxlen_block(rnd, level) if rnd.random() < 0.7 else rand_block(rnd, level, opts=opts) for _ in range(max(1, nblocks))])
    return Stream(level, [rand_block(rnd, level, opts=opts) for _ in range(nblocks)])


# --------------------------------------------------------------------------
# planting arbitrary bytes inside coded data

def plant_block(rnd, payload_pieces, filler=200):
    """A block whose alphabet has 256 symbols, all coded with 8 bits, so that
    symbol value == byte value in the coded data.  payload_pieces: list of bytes
    objects (must not contain 0xFF); random filler symbols surround them."""
    used = [b for b in range(256) if b not in (7, 11)]      # 254 values -> alpha 256
    tables = [[8] * 256, [8] * 256]
    syms = []

    def fill(n):
        for _ in range(n):
            syms.append(rnd.randint(2, 254))
    fill(rnd.randint(1, filler))
    for pc in payload_pieces:
        assert 0xFF not in pc
        syms.extend(pc)
        fill(rnd.randint(1, filler))
    ngroups = (len(syms) + 1 + 49) // 50
    sels = [rnd.randint(0, 1) for _ in range(ngroups)]
    b = Block(used, syms, tables, sels)
    nb = b.nblock()
    b.orig = rnd.randrange(nb)
    return b


MAGIC_BYTES = bytes.fromhex('314159265359')


# --------------------------------------------------------------------------
# mutators

def flip_bit(data, bit):
    b = bytearray(data)
    b[bit >> 3] ^= 0x80 >> (bit & 7)
    return bytes(b)


def byte_mutate(rnd, data):
    b = bytearray(data)
    if not b:
        return bytes([rnd.randrange(256)])
    k = rnd.random()
    i = rnd.randrange(len(b))
    if k < 0.35:
        b[i] ^= 1 << rnd.randrange(8)
    elif k < 0.55:
        b[i] = rnd.randrange(256)
    elif k < 0.7:
        b.insert(i, rnd.randrange(256))
    elif k < 0.85:
        del b[i]
    else:
        j = rnd.randrange(len(b))
        n = rnd.randint(1, 32)
        b[i:i + n] = b[j:j + n]
    return bytes(b)
