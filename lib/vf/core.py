"""Core of the /verif runtime-monitoring framework: build cache, process
runner with deadlock watchdog, parallel map, evidence, known findings."""
import atexit, concurrent.futures as cf, glob, hashlib, json, os, random, re
import shutil, signal, subprocess, sys, tempfile, threading, time

ROOT = os.path.dirname(os.path.dirname(os.path.dirname(os.path.abspath(__file__))))
REPO = os.environ.get('VERIF_REPO', '/repo')
BUILD = os.path.join(ROOT, '.build')
WORKROOT = os.path.join(ROOT, '.work')
NATIVE = os.path.join(ROOT, 'native')
PY = '/usr/bin/python3'
JOBS = int(os.environ.get('VERIF_JOBS', '16'))

COMMON = ['-std=gnu99', '-D_XOPEN_SOURCE=700', '-D_FILE_OFFSET_BITS=64',
          '-DPACKAGE_NAME="lbzip2"', '-DPACKAGE_VERSION="devel"', '-pthread']
GUARD = '-DKJN_LBZIP2_VERIF'
VARIANTS = {
    'hook':  ('gcc', ['-O2', '-g', GUARD], []),
    'plain': ('gcc', ['-O2', '-g'], []),
    'asan':  ('gcc', ['-O1', '-g', '-fno-omit-frame-pointer',
                      '-fsanitize=address,undefined',
                      '-fno-sanitize-recover=all', GUARD], []),
    'msan':  ('clang', ['-O1', '-g', '-fno-omit-frame-pointer', '-fsanitize=memory',
                        '-fsanitize-memory-track-origins', GUARD], []),
    # the shipped configuration (asserts compiled out), with and without ASan: used for one-off explorations
    'ndebug': ('gcc', ['-O2', '-g', '-DNDEBUG', GUARD], []),
    'asan-ndebug': ('gcc', ['-O1', '-g', '-DNDEBUG', '-fno-omit-frame-pointer', '-fsanitize=address,undefined',
                            '-fno-sanitize-recover=all', GUARD], []),
    'tsan':  ('gcc', ['-O1', '-g', '-fsanitize=thread', GUARD],
              [os.path.join(NATIVE, 'tsan_exit.c')]),
}


class HarnessError(Exception):
    pass


def seed():
    try:
        return int(os.environ.get('VERIF_SEED', '1'))
    except ValueError:
        return 1


def sha(*parts):
    h = hashlib.sha256()
    for p in parts:
        if isinstance(p, str):
            p = p.encode()
        h.update(p)
        h.update(b'\0')
    return h.hexdigest()


def file_hash(paths):
    h = hashlib.sha256()
    for p in sorted(paths):
        h.update(os.path.basename(p).encode() + b'\0')
        with open(p, 'rb') as f:
            h.update(f.read())
        h.update(b'\0')
    return h.hexdigest()


def repo_sources():
    return sorted(glob.glob(os.path.join(REPO, 'src', '*.c')))


def repo_src_hash():
    return file_hash(glob.glob(os.path.join(REPO, 'src', '*.[ch]')))


_build_lock = threading.Lock()
_built = {}


def _run_cc(cmd):
    p = subprocess.run(cmd, stdout=subprocess.PIPE, stderr=subprocess.STDOUT)
    if p.returncode != 0:
        raise HarnessError('build failed: %s\n%s' % (' '.join(cmd), p.stdout.decode(errors='replace')[-4000:]))


def _cached(kind, key, builder):
    """Return directory BUILD/<kind>-<key16>, building it with builder(dir)."""
    with _build_lock:
        if (kind, key) in _built:
            return _built[(kind, key)]
        d = os.path.join(BUILD, '%s-%s' % (kind, key[:16]))
        if not os.path.exists(os.path.join(d, '.ok')):
            # drop stale caches of the same kind -- but never anything recent: other
            # checks may be running concurrently against another tree (or building right now)
            now = time.time()
            for old in glob.glob(os.path.join(BUILD, kind + '-*')):
                try:
                    if old != d and now - os.path.getmtime(old) > 6 * 3600:
                        shutil.rmtree(old, ignore_errors=True)
                except OSError:
                    pass
            tmp = d + '.tmp%d' % os.getpid()
            shutil.rmtree(tmp, ignore_errors=True)
            os.makedirs(tmp)
            builder(tmp)
            open(os.path.join(tmp, '.ok'), 'w').close()
            try:
                os.rename(tmp, d)
            except OSError:
                # somebody else finished the same build first
                shutil.rmtree(tmp, ignore_errors=True)
                if not os.path.exists(os.path.join(d, '.ok')):
                    raise HarnessError('build cache race on ' + d)
        else:
            try:
                os.utime(d)
            except OSError:
                pass
        _built[(kind, key)] = d
        return d


def compile_objects(cc, flags, sources, outdir, incdirs=()):
    objs = []
    cmds = []
    for s in sources:
        o = os.path.join(outdir, os.path.basename(s)[:-2] + '.o')
        objs.append(o)
        cmds.append([cc] + COMMON + flags + ['-I' + i for i in incdirs] + ['-c', s, '-o', o])
    with cf.ThreadPoolExecutor(max_workers=JOBS) as ex:
        list(ex.map(_run_cc, cmds))
    return objs


def build_lbzip2(variant):
    """Build the whole program from /repo's current working tree."""
    if variant == 'hook' and os.environ.get('VERIF_FORCE_VARIANT') in VARIANTS:
        variant = os.environ['VERIF_FORCE_VARIANT']         # exploration only (never set by registered commands)
    cc, flags, extra = VARIANTS[variant]
    key = sha(repo_src_hash(), variant, ' '.join(flags), file_hash(extra) if extra else '')

    def builder(d):
        objs = compile_objects(cc, flags, repo_sources() + list(extra), d)
        _run_cc([cc] + COMMON + flags + objs + ['-o', os.path.join(d, 'lbzip2')])
        for o in objs:
            os.unlink(o)
    return os.path.join(_cached('lbzip2-' + variant, key, builder), 'lbzip2')


def build_native(name):
    """Build a helper from /verif/native (no repo sources involved)."""
    spec = {
        'refbz':   (['refbz.c'], ['-O2', '-g'], 'refbz'),
        'runmon':  (['runmon.c'], ['-O2', '-g'], 'runmon'),
        'packmodel': (['packmodel.c'], ['-O2', '-g'], 'packmodel'),
        'ioshim':  (['ioshim.c'], ['-O2', '-g', '-fPIC', '-shared', '-ldl'], 'ioshim.so'),
        'memshim': (['memshim.c'], ['-O2', '-g', '-fPIC', '-shared', '-ldl', '-pthread'], 'memshim.so'),
    }[name]
    srcs = [os.path.join(NATIVE, s) for s in spec[0]]
    key = sha(file_hash(srcs), ' '.join(spec[1]))

    def builder(d):
        _run_cc(['gcc', '-Wall'] + srcs + spec[1] + ['-o', os.path.join(d, spec[2])])
    return os.path.join(_cached('native-' + name, key, builder), spec[2])


def build_repo_tool(name):
    """Build tests/minbzcat.c or tests/bzip2-0.1pl2.c from the repo."""
    src = os.path.join(REPO, 'tests', {'minbzcat': 'minbzcat.c', 'bz01': 'bzip2-0.1pl2.c'}[name])
    flags = ['-O2', '-w'] + (['-std=gnu89', '-fgnu89-inline'] if name == 'bz01' else [])
    key = sha(file_hash([src]), ' '.join(flags))

    def builder(d):
        _run_cc(['gcc'] + flags + [src, '-o', os.path.join(d, name)])
    return os.path.join(_cached('tool-' + name, key, builder), name)


def build_harness(name, main_src, flags, cc='gcc', link_repo=(), include_repo=None, extra_src=()):
    """Build an in-process harness.  main_src (in /verif/native) may #include one
    repo source (common.h has no include guard); link_repo lists other repo
    sources (basenames) compiled as separate objects with the same flags."""
    main_path = os.path.join(NATIVE, main_src)
    deps = [main_path] + [os.path.join(NATIVE, e) for e in extra_src]
    key = sha(repo_src_hash(), file_hash(deps + [os.path.join(NATIVE, 'globals.h')]), cc, ' '.join(flags), ' '.join(link_repo))

    def builder(d):
        srcs = [os.path.join(REPO, 'src', b) for b in link_repo]
        objs = compile_objects(cc, flags, srcs, d) if srcs else []
        _run_cc([cc] + COMMON + flags + ['-I' + os.path.join(REPO, 'src'), '-I' + NATIVE,
                                          '-DREPO_SRC="%s"' % os.path.join(REPO, 'src')]
                + deps + objs + ['-o', os.path.join(d, name)])
        for o in objs:
            os.unlink(o)
    return os.path.join(_cached('harness-' + name, key, builder), name)


# --------------------------------------------------------------------------
# scratch space

_work = None


def workdir():
    global _work
    if _work is None:
        os.makedirs(WORKROOT, exist_ok=True)
        # remove scratch directories left behind by runs that were killed
        for old in os.listdir(WORKROOT):
            m = re.match(r'w(\d+)-', old)
            if m and not os.path.exists('/proc/%s' % m.group(1)):
                shutil.rmtree(os.path.join(WORKROOT, old), ignore_errors=True)
        _work = tempfile.mkdtemp(prefix='w%d-' % os.getpid(), dir=WORKROOT)
        atexit.register(lambda: shutil.rmtree(_work, ignore_errors=True))
    return _work


_tmp_ctr = [0]
_tmp_lock = threading.Lock()


def tmppath(suffix=''):
    with _tmp_lock:
        _tmp_ctr[0] += 1
        n = _tmp_ctr[0]
    return os.path.join(workdir(), 't%06d%s' % (n, suffix))


def tmpdir():
    p = tmppath('.d')
    os.makedirs(p)
    return p


# --------------------------------------------------------------------------
# process runner

class Res:
    __slots__ = ('rc', 'sig', 'out', 'err', 'timed_out', 'deadlock', 'wall', 'gdb', 'argv', 'cpu_s', 'extra')

    def __init__(self):
        self.rc = None; self.sig = None; self.out = b''; self.err = b''
        self.timed_out = False; self.deadlock = False; self.wall = 0.0
        self.gdb = ''; self.argv = None; self.cpu_s = None; self.extra = None

    @property
    def status(self):
        if self.timed_out:
            return 'deadlock' if self.deadlock else 'timeout'
        if self.sig is not None:
            return 'sig%d' % self.sig
        return 'exit%d' % self.rc

    def brief(self):
        return {'status': self.status, 'out_len': len(self.out),
                'err': self.err[:300].decode(errors='replace')}


def _cpu_ticks(pid):
    try:
        with open('/proc/%d/stat' % pid) as f:
            s = f.read()
        rest = s[s.rindex(')') + 2:].split()
        return int(rest[11]) + int(rest[12])
    except Exception:
        return None


def _thread_states(pid):
    st = []
    try:
        for t in os.listdir('/proc/%d/task' % pid):
            try:
                with open('/proc/%d/task/%s/stat' % (pid, t)) as f:
                    s = f.read()
                st.append(s[s.rindex(')') + 2])
            except Exception:
                pass
    except Exception:
        pass
    return st


def _gdb_dump(pid):
    try:
        p = subprocess.run(['gdb', '-batch', '-p', str(pid), '-ex', 'thread apply all bt 12'],
                           stdout=subprocess.PIPE, stderr=subprocess.STDOUT, timeout=60)
        return p.stdout.decode(errors='replace')[-20000:]
    except Exception as e:
        return 'gdb failed: %r' % (e,)


def _all_parked(pid):
    """True iff every thread sits in futex(2) or rt_sigsuspend(2): a thread blocked in read()/write()
    is waiting for the harness (slow feeder / slow drain), which is not a deadlock of the program."""
    try:
        tids = os.listdir('/proc/%d/task' % pid)
    except OSError:
        return False
    for t in tids:
        try:
            with open('/proc/%d/task/%s/syscall' % (pid, t)) as f:
                nr = f.read().split()[0]
        except Exception:
            return False
        if nr not in ('202', '130'):        # x86-64: futex, rt_sigsuspend
            return False
    return True


def leaf_pid(pid):
    """Follow single-child launchers (runmon, valgrind wrappers) down to the process that does the work."""
    for _ in range(4):
        try:
            kids = open('/proc/%d/task/%d/children' % (pid, pid)).read().split()
        except Exception:
            return pid
        if len(kids) != 1:
            return pid
        pid = int(kids[0])
    return pid


def judge_hang(pid, quiet_s=8.0):
    pid = leaf_pid(pid)
    """Deadlock evidence: no CPU progress over quiet_s and every thread sleeping."""
    t0 = _cpu_ticks(pid)
    if t0 is None:
        return False, ''
    deadline = time.time() + quiet_s
    while time.time() < deadline:
        time.sleep(1.0)
        t1 = _cpu_ticks(pid)
        if t1 is None:
            return False, ''
        if t1 != t0:
            return False, ''
    states = _thread_states(pid)
    if states and all(s in 'SDt' for s in states) and _all_parked(pid):
        return True, _gdb_dump(pid)
    return False, ''


def run(argv, stdin=None, env=None, cwd=None, timeout=120, stdout_path=None,
        feed=None, drain=None, preexec=None, merge_env=True, hard_factor=3, pass_fds=(), stderr_path=None):
    """Run a child.  stdin: bytes | path(str) | None(/dev/null) | int fd.
    feed: None, or (fragment_sizes list, delay_s[, [(fraction, pause_s)]]) to write stdin through a pipe
    in fragments.  drain: None, or (chunk, delay_s) to read stdout slowly.
    Returns Res.  A watchdog expiry alone is 'timeout' (inconclusive); it is a
    'deadlock' only with evidence (see judge_hang)."""
    e = dict(os.environ) if merge_env else {}
    for k in list(e):
        if k.startswith('LBZIP2_VERIF') or k in ('LBZIP2', 'BZIP2', 'BZIP', 'LD_PRELOAD'):
            del e[k]
    if env:
        e.update(env)
    r = Res()
    r.argv = list(argv)
    t_start = time.time()
    fin = None
    if isinstance(stdin, (bytes, bytearray)):
        sin = subprocess.PIPE
    elif isinstance(stdin, str):
        fin = open(stdin, 'rb'); sin = fin
    elif isinstance(stdin, int):
        sin = stdin
    else:
        sin = subprocess.DEVNULL
    fout = None
    if stdout_path is not None:
        fout = open(stdout_path, 'wb'); sout = fout
    else:
        sout = subprocess.PIPE
    ferr = open(stderr_path, 'wb') if stderr_path is not None else None
    try:
        proc = subprocess.Popen(argv, stdin=sin, stdout=sout, stderr=ferr if ferr else subprocess.PIPE,
                                env=e, cwd=cwd, preexec_fn=preexec, pass_fds=pass_fds, start_new_session=True)
    finally:
        if fin:
            fin.close()
        if fout:
            fout.close()
        if ferr:
            ferr.close()
    outbuf = []; errbuf = []
    threads = []

    def feeder():
        data = bytes(stdin)
        sizes, delay = (feed[0], feed[1]) if feed else ([len(data) or 1], 0)
        # optional third element: [(fraction of the input, seconds)] = the producer goes quiet once at that offset
        pauses = sorted((int(fr * len(data)), secs) for fr, secs in (feed[2] if feed and len(feed) > 2 else []))
        pos = 0; i = 0
        fd = proc.stdin.fileno()
        try:
            while pos < len(data):
                n = max(1, sizes[i % len(sizes)]); i += 1
                if pauses and pos < pauses[0][0] < pos + n:
                    n = pauses[0][0] - pos
                chunk = data[pos:pos + n]
                while chunk:
                    w = os.write(fd, chunk)
                    chunk = chunk[w:]
                pos += n
                if pauses and pos >= pauses[0][0]:
                    time.sleep(pauses.pop(0)[1])
                if delay:
                    time.sleep(delay)
        except (BrokenPipeError, OSError):
            pass
        finally:
            try:
                proc.stdin.close()
            except Exception:
                pass

    done = threading.Event()

    def reader(f, buf, pace):
        fd = f.fileno()
        try:
            while True:
                if pace and not done.is_set():
                    b = os.read(fd, pace[0])
                    if pace[1]:
                        time.sleep(pace[1])
                else:
                    b = os.read(fd, 1 << 20)
                if not b:
                    break
                buf.append(b)
        except OSError:
            pass

    if sin == subprocess.PIPE:
        t = threading.Thread(target=feeder, daemon=True); t.start(); threads.append(t)
    if sout == subprocess.PIPE:
        t = threading.Thread(target=reader, args=(proc.stdout, outbuf, drain), daemon=True)
        t.start(); threads.append(t)
    if proc.stderr is not None:
        t = threading.Thread(target=reader, args=(proc.stderr, errbuf, None), daemon=True)
        t.start(); threads.append(t)

    hard = t_start + timeout * hard_factor
    try:
        proc.wait(timeout=timeout)
    except subprocess.TimeoutExpired:
        while True:
            dead, dump = judge_hang(proc.pid)
            if proc.poll() is not None:
                break
            if dead:
                r.timed_out = True; r.deadlock = True; r.gdb = dump
                break
            if time.time() > hard:
                r.timed_out = True
                r.gdb = _gdb_dump(proc.pid)
                break
            try:
                proc.wait(timeout=min(timeout, 20))
                break
            except subprocess.TimeoutExpired:
                continue
        if r.timed_out:
            kill_group(proc)
            proc.wait()
    done.set()
    for t in threads:
        t.join(timeout=600)
        if t.is_alive():
            r.timed_out = True      # could not collect the output: inconclusive, never a verdict
    for f in (proc.stdin, proc.stdout, proc.stderr):
        try:
            if f:
                f.close()
        except Exception:
            pass
    rc = proc.returncode
    if not r.timed_out:
        if rc < 0:
            r.sig = -rc
        else:
            r.rc = rc
    r.out = b''.join(outbuf)
    r.err = b''.join(errbuf)
    if r.timed_out is False and (r.sig is not None or r.rc is not None):
        # make sure nothing of the process group lingers (e.g. a launcher died but its child did not)
        try:
            os.killpg(proc.pid, signal.SIGKILL)
        except Exception:
            pass
    r.wall = time.time() - t_start
    return r


def kill_group(proc):
    """Kill the child and everything it started (a launcher's child would otherwise keep the pipes open)."""
    try:
        os.killpg(proc.pid, signal.SIGKILL)
    except Exception:
        try:
            proc.kill()
        except Exception:
            pass


def pmap(fn, items, jobs=None):
    items = list(items)
    if not items:
        return []
    with cf.ThreadPoolExecutor(max_workers=jobs or JOBS) as ex:
        return list(ex.map(fn, items))


# --------------------------------------------------------------------------
# known findings

def load_findings():
    p = os.path.join(ROOT, 'known_findings.json')
    try:
        with open(p) as f:
            return json.load(f).get('findings', [])
    except FileNotFoundError:
        return []


# --------------------------------------------------------------------------
# check context: evidence, violations, exit code

LEVELS = {}


class Ctx:
    def __init__(self, pid, level, tier):
        self.pid = pid
        self.level = level
        self.tier = tier
        self.seed = seed()
        self.t0 = time.time()
        self.evaluations = 0
        self.nontrivial = set()
        self.samples = []
        self.monitors = {}
        self.rule = ''
        self.assumptions = []
        self.violations = 0
        self.known_hits = {}
        self.inconclusive = 0
        self.inconclusive_notes = []
        self.exhaustive = None
        self.extra = {}
        self._lock = threading.Lock()
        self._replays = 0
        self.findings = [f for f in load_findings() if f.get('property') == pid]
        self.harness_errors = []

    def rng(self, *salt):
        return random.Random(sha(str(self.seed), self.pid, *[str(s) for s in salt]))

    def quick(self):
        return self.tier == 'quick'

    def count(self, name, n=1):
        with self._lock:
            self.monitors[name] = self.monitors.get(name, 0) + n

    def maxmon(self, name, v):
        with self._lock:
            if v > self.monitors.get(name, 0):
                self.monitors[name] = v

    def ev(self, n=1):
        with self._lock:
            self.evaluations += n

    def nt(self, key):
        with self._lock:
            self.nontrivial.add(key)

    def sample(self, obj, cap=6):
        with self._lock:
            if len(self.samples) < cap:
                self.samples.append(obj)

    def inconcl(self, note):
        with self._lock:
            self.inconclusive += 1
            if len(self.inconclusive_notes) < 10:
                self.inconclusive_notes.append(str(note)[:300])

    def harness_error(self, msg):
        with self._lock:
            self.harness_errors.append(str(msg)[:500])

    def violation(self, key, what, files=None, info=None):
        """key: stable finding key '<class>:<detail>' (property id is prefixed)."""
        full = '%s:%s' % (self.pid, key)
        with self._lock:
            for f in self.findings:
                if f.get('status') == 'open' and f.get('key') == full:
                    if full not in self.known_hits:
                        self.known_hits[full] = 0
                        print('KNOWN-FINDING: property=%s %s' % (self.pid, f.get('what', full)), flush=True)
                    self.known_hits[full] += 1
                    return
            self.violations += 1
            self._replays += 1
            n = self._replays
        if n > 8:
            return
        d = os.path.join(ROOT, 'replays' if REPO == '/repo' else '.work/scratch-replays', self.pid, '%s-s%d-%03d-%s' % (
            self.tier, self.seed, n, re.sub(r'[^A-Za-z0-9_.-]+', '_', key)[:60]))
        shutil.rmtree(d, ignore_errors=True)
        os.makedirs(d, exist_ok=True)
        meta = {'property': self.pid, 'key': full, 'what': what, 'seed': self.seed, 'tier': self.tier}
        if info:
            meta.update(info)
        for name, data in (files or {}).items():
            if data is None:
                continue
            if isinstance(data, str):
                data = data.encode()
            with open(os.path.join(d, name), 'wb') as f:
                f.write(data)
        with open(os.path.join(d, 'info.json'), 'w') as f:
            json.dump(meta, f, indent=1, default=repr)
        print('VIOLATION property=%s replay=%s' % (self.pid, d), flush=True)
        print('  key=%s %s' % (full, what), flush=True)

    def write_evidence(self):
        cov = {
            'evaluations': int(self.evaluations),
            'distinct_nontrivial': len(self.nontrivial),
            'rule': self.rule,
            'samples': self.samples,
            'monitors': self.monitors,
            'inconclusive': self.inconclusive,
            'inconclusive_notes': self.inconclusive_notes,
            'known_findings_hit': self.known_hits,
        }
        if self.exhaustive is not None:
            cov['exhaustive'] = bool(self.exhaustive)
        cov.update(self.extra)
        ev = {
            'property_id': self.pid, 'tier': self.tier, 'seed': self.seed,
            'level': self.level, 'coverage': cov, 'assumptions': self.assumptions,
            'wall_s': round(time.time() - self.t0, 2), 'violations': self.violations,
        }
        # runs against a scratch copy of the repository (mutant self-tests) must not
        # overwrite the evidence of the real tree
        evdir = os.path.join(ROOT, 'evidence') if REPO == '/repo' else os.path.join(WORKROOT, 'scratch-evidence')
        os.makedirs(evdir, exist_ok=True)
        p = os.path.join(evdir, self.pid + '.json')
        with open(p + '.tmp', 'w') as f:
            json.dump(ev, f, indent=1, default=repr)
        os.replace(p + '.tmp', p)

    def finish(self):
        code = 0
        if self.evaluations and self.inconclusive * 50 > self.evaluations:
            self.harness_errors.append('too many inconclusive cases: %d of %d' % (self.inconclusive, self.evaluations))
        if self.evaluations == 0:
            self.harness_errors.append('no cases were evaluated')
        if len(self.nontrivial) < 2:
            self.harness_errors.append('fewer than 2 distinct non-trivial cases')
        self.write_evidence()
        if self.violations:
            code = 1
        elif self.harness_errors:
            code = 2
        print('%s %s seed=%d: evaluations=%d nontrivial=%d violations=%d inconclusive=%d wall=%.1fs'
              % (self.pid, self.tier, self.seed, self.evaluations, len(self.nontrivial),
                 self.violations, self.inconclusive, time.time() - self.t0), flush=True)
        for h in self.harness_errors:
            print('HARNESS-ERROR: ' + h, flush=True)
        return code
