"""Plaintext workload families (seeded)."""
import glob, os, random, bz2
from . import core

RUNLENS = [1, 2, 3, 4, 5, 6, 254, 255, 256, 257, 258, 259, 260, 261, 262, 263,
           264, 514, 517, 518, 519, 520, 777, 1036, 1037]


def _tr(k, rnd):
    syms = rnd.sample(range(256), k)
    return bytes(syms[i % k] for i in range(256))


def uniform(rnd, n):
    return rnd.randbytes(n)


def ksym(rnd, n, k):
    return rnd.randbytes(n).translate(_tr(k, rnd))


def textlike(rnd, n):
    words = [bytes(rnd.choice(b'abcdefghijklmnopqrstuvwxyz') for _ in range(rnd.randint(1, 9)))
             for _ in range(rnd.randint(20, 400))]
    out = bytearray()
    while len(out) < n:
        out += rnd.choice(words)
        out += b' ' if rnd.random() < 0.9 else b'.\n'
    return bytes(out[:n])


def runs(rnd, n, lens=None, k=3):
    """Runs with lengths drawn from the interesting set."""
    lens = lens or RUNLENS
    syms = rnd.sample(range(256), k)
    out = bytearray()
    prev = -1
    while len(out) < n:
        c = rnd.choice(syms)
        if c == prev and rnd.random() < 0.7:
            continue
        out += bytes([c]) * rnd.choice(lens)
        prev = c
    return bytes(out[:n])


def runs4(rnd, n, k=None):
    """Runs of exactly four equal bytes back to back (aaaabbbbcccc...): the run-length stage expands the input
    by 25 %, its worst case."""
    k = k or rnd.choice([2, 3, 5, 17, 200])
    syms = rnd.sample(range(256), k)
    unit = b''.join(bytes([c]) * 4 for c in syms)
    if rnd.random() < 0.3:
        unit = unit[:4 * k - rnd.randint(0, 3)] + bytes([syms[0] ^ 0x55])
    return (unit * (n // len(unit) + 1))[:n]


def sprinkled4(rnd, n, level=1):
    """Run-free bytes with a few runs of exactly four per level*100000-byte piece: the run-length stage expands each piece
    by 1-70 bytes, so that a piece overshoots the block capacity by a handful of bytes (tiny remainder blocks)."""
    piece = level * 100000
    out = bytearray()
    while len(out) < n:
        m = min(piece, n - len(out))
        base = bytearray(rnd.randbytes(m))
        for i in range(1, m):
            if base[i] == base[i - 1]:
                base[i] = (base[i] + 1 + (i & 1)) & 255
                if base[i] == base[i - 1]:
                    base[i] = (base[i] + 1) & 255
        r = rnd.choice([1, 2, 5, 10, 20, 35, 50, 70])
        if m > 8 * r + 16:
            step = m // (r + 1)
            for k in range(r):
                p = (k + 1) * step
                c = base[p]
                # neighbours must differ from the run byte so that the run is exactly four long
                if base[p - 1] == c:
                    base[p - 1] = (c + 1) & 255
                    if p >= 2 and base[p - 2] == base[p - 1]:
                        base[p - 1] = (c + 2) & 255
                base[p:p + 4] = bytes([c]) * 4
                if p + 4 < m and base[p + 4] == c:
                    base[p + 4] = (c + 3) & 255
                    if p + 5 < m and base[p + 5] == base[p + 4]:
                        base[p + 4] = (c + 5) & 255
        out += base
    return bytes(out[:n])


def fib(n, a=b'a', b=b'b'):
    x, y = a, b
    while len(y) < n:
        x, y = y, y + x
    return y[:n]


def tandem(rnd, n):
    wl = rnd.choice([1, 2, 3, 5, 7, 16, 100, 257, 1000, 4099, 70000])
    w = rnd.randbytes(min(wl, n) or 1)
    if rnd.random() < 0.5:
        w = w.translate(_tr(rnd.choice([2, 3, 4]), rnd))
    return (w * (n // len(w) + 1))[:n]


def period(rnd, n):
    p = rnd.choice([2, 3, 4, 5, 8, 255, 256, 258, 259, 260, 1024])
    return bytes((i % p) & 255 for i in range(n))


def allbytes(rnd, n):
    return (bytes(range(256)) * (n // 256 + 1))[:n]


def sortedb(rnd, n):
    d = sorted(rnd.randbytes(n))
    return bytes(d if rnd.random() < 0.5 else reversed(d))


def skewed(rnd, n):
    """Geometric / Fibonacci-weighted symbol mix: deep Huffman trees."""
    k = rnd.choice([8, 16, 24, 32, 40])
    if rnd.random() < 0.5:
        w = [1, 1]
        while len(w) < k:
            w.append(w[-1] + w[-2])
    else:
        w = [2 ** i for i in range(k)]
    syms = rnd.sample(range(256), k)
    return bytes(rnd.choices(syms, weights=w, k=n))


def tiny_alphabet_drift(rnd, n, seg=100000):
    """2..6 distinct byte values, never the same value twice in a row (so no byte run reaches the run-length coder and the
    block alphabet stays tiny), with the symbol skew redrawn every `seg` bytes: consecutive blocks have the same small
    alphabet but need differently shaped prefix codes."""
    k = rnd.choice([2, 3, 3, 4, 4, 5, 5, 6])
    syms = rnd.sample(range(256), k)
    out = bytearray()
    prev = None
    while len(out) < n:
        shape = rnd.choice(['flat', 'geo', 'one', 'fib'])
        if shape == 'flat':
            w = [1] * k
        elif shape == 'geo':
            b = rnd.choice([2, 3, 5, 9])
            w = [b ** i for i in range(k)]
        elif shape == 'one':
            w = [1] * k
            w[rnd.randrange(k)] = rnd.choice([20, 200])
        else:
            w = [1, 1]
            while len(w) < k:
                w.append(w[-1] + w[-2])
        rnd.shuffle(w)
        m = min(seg, n - len(out))
        draw = rnd.choices(range(k), weights=w, k=m)
        for x in draw:
            if x == prev:
                x = (x + 1) % k if k > 1 else x
            out.append(syms[x])
            prev = x
    return bytes(out)


def boundary(rnd, level, ultra=False):
    """Input whose interesting run lands on block capacity -2..+2."""
    cap = level * 100000
    delta = rnd.randint(-6, 3)
    rl = rnd.choice([2, 3, 4, 5, 6, 255, 258, 259, 260, 261, 300, 520])
    pre_kind = rnd.choice(['rand', 'alt', 'runs4'])
    # we want the RLE'd cost of prefix to be cap + delta - something small
    target = cap + delta - rnd.choice([0, 1, 2, 3, 4, 5])
    if pre_kind == 'rand':
        pre = bytearray(rnd.randbytes(target))
        # break accidental runs of 4 so that cost == length
        for i in range(3, len(pre)):
            if pre[i] == pre[i - 1] == pre[i - 2] == pre[i - 3]:
                pre[i] ^= 0x55
        pre = bytes(pre)
    elif pre_kind == 'alt':
        pre = (b'xy' * (target // 2 + 1))[:target]
    else:
        # pieces 'zzzz' cost 5 each for 4 bytes
        unit = b'pqqqq'   # costs 1 + 5 = 6
        pre = unit * (target // 6) + b'r' * (target % 6)
    c = rnd.choice(b'ABC')
    tail = bytes([c]) * rl + rnd.randbytes(rnd.choice([0, 1, 7, 3000]))
    data = pre + tail
    if rnd.random() < 0.3:
        data = data * 2
    return data


def chunk_straddle(rnd, level):
    """A run of equal bytes that straddles the first read-chunk boundary (level*100000) while the current block
    has 0..8 free bytes left: exercises the resumed-run path of the collector (--sequential carries a block
    across chunks)."""
    cap = level * 100000
    j = rnd.randint(0, 9)
    pre = bytearray(rnd.randbytes(cap - j))
    for i in range(1, len(pre)):
        if pre[i] == pre[i - 1]:
            pre[i] = (pre[i] + 1 + (i & 1)) & 0xff          # run-free prefix: cost == length
    if rnd.random() < 0.3:
        k = rnd.randint(1, 3)                                 # or: the run starts a little earlier
        pre = pre[:len(pre) - k]
    c = (pre[-1] + 7) & 0xff if pre else 65
    rl = rnd.choice([2, 3, 4, 5, 6, 7, 8, 9, 12, 258, 259, 260, 264, 300])
    tail = rnd.randbytes(rnd.choice([0, 1, 50, 3000]))
    if tail and tail[0] == c:
        tail = bytes([(c + 1) & 0xff]) + tail[1:]
    return bytes(pre) + bytes([c]) * rl + tail


def bwt_designed(rnd, n, ratio=0.618, K=40):
    """A plaintext whose Burrows-Wheeler transform is (almost exactly) a designed last column: move-to-front
    ranks drawn from a geometric/Fibonacci-like law with NO zero ranks (no equal adjacent bytes, so the
    RUNA/RUNB symbols stay unused) -> maximally deep prefix tables in the compressor.
    Method: build L by inverse MTF of the ranks; the text alternates between a 2-letter alphabet A and a big
    alphabet B (rows starting with A end in B and vice versa, so the text itself has no runs); merge the
    cycles of the LF permutation by swapping adjacent unequal bytes of L; invert the BWT."""
    import bisect
    n -= n & 1
    h = n // 2
    cum = []
    acc = 0.0
    for k in range(K):
        acc += ratio ** k
        cum.append(acc)
    order = list(range(K + 2))          # symbols 0,1 = alphabet A; 2..K+1 = alphabet B
    L = bytearray(n)
    for i in range(h):
        while True:
            p = 1 + bisect.bisect_left(cum, rnd.random() * acc)
            if p <= K + 1 and order[p] >= 2:
                break
        c = order.pop(p)
        order.insert(0, c)
        L[i] = c
    for i in range(h, n):
        L[i] = i & 1

    def lf_of(L):
        cnt = [0] * (K + 3)
        for c in L:
            cnt[c + 1] += 1
        for c in range(1, K + 3):
            cnt[c] += cnt[c - 1]
        nxt = cnt[:]
        lf = [0] * n
        for i, c in enumerate(L):
            lf[i] = nxt[c]
            nxt[c] += 1
        return lf
    lf = lf_of(L)
    parent = list(range(n))

    def find(x):
        while parent[x] != x:
            parent[x] = parent[parent[x]]
            x = parent[x]
        return x
    seen = bytearray(n)
    for i in range(n):
        if not seen[i]:
            j = i
            while not seen[j]:
                seen[j] = 1
                parent[j] = i
                j = lf[j]
    for i in range(n - 1):
        if i == h - 1:
            continue                     # keep the A/B halves apart
        if L[i] != L[i + 1]:
            a, b = find(i), find(i + 1)
            if a != b:
                L[i], L[i + 1] = L[i + 1], L[i]
                lf[i], lf[i + 1] = lf[i + 1], lf[i]
                parent[a] = b
    # inverse BWT (the LF walk yields the text backwards)
    out = bytearray(n)
    j = 0
    for k in range(n - 1, -1, -1):
        out[k] = L[j]
        j = lf[j]
    base = rnd.choice([0x20, 0x30, 0x61])
    return bytes(out).translate(bytes((base + c) & 0xff for c in range(256)))


FAMILIES = ['runs4', 'sprinkled4', 'uniform', 'k2', 'k3', 'k4', 'k16', 'text', 'runs', 'onebyte', 'fib',
            'tandem', 'period', 'allbytes', 'sorted', 'skewed', 'boundary', 'concat', 'tiny']


def make(rnd, family, n, level=1):
    if family == 'uniform':
        return uniform(rnd, n)
    if family in ('k2', 'k3', 'k4', 'k16'):
        return ksym(rnd, n, int(family[1:]))
    if family == 'text':
        return textlike(rnd, n)
    if family == 'runs':
        return runs(rnd, n)
    if family == 'runs4':
        return runs4(rnd, n)
    if family == 'sprinkled4':
        return sprinkled4(rnd, n, level)
    if family == 'onebyte':
        return bytes([rnd.randrange(256)]) * n
    if family == 'fib':
        return fib(n)
    if family == 'tandem':
        return tandem(rnd, n)
    if family == 'period':
        return period(rnd, n)
    if family == 'allbytes':
        return allbytes(rnd, n)
    if family == 'sorted':
        return sortedb(rnd, min(n, 300000))
    if family == 'skewed':
        return skewed(rnd, min(n, 400000))
    if family == 'boundary':
        return boundary(rnd, level)
    if family == 'tiny':
        return rnd.randbytes(rnd.choice([0, 1, 2, 3, 4, 5]))
    if family == 'concat':
        parts = []
        left = n
        while left > 0:
            f = rnd.choice(['uniform', 'k2', 'text', 'runs', 'onebyte', 'fib', 'tandem', 'skewed'])
            m = min(left, rnd.choice([1, 10, 1000, 50000, 99990, 100000, 100010, 250000]))
            parts.append(make(rnd, f, m, level))
            left -= m
        return b''.join(parts)
    raise ValueError(family)


def pick(rnd, level=1, maxsize=None, families=None):
    """One seeded plaintext sized relative to the level."""
    fam = rnd.choice(families or FAMILIES)
    cap = level * 100000
    n = rnd.choice([0, 1, 100, 5000, cap - 1, cap, cap + 1, 2 * cap + 17,
                    int(3.3 * cap), 5 * cap + rnd.randint(0, 999), rnd.randint(1, 6 * cap)])
    if maxsize:
        n = min(n, maxsize)
    return fam, make(rnd, fam, n, level)


_suite = None


def suite_corpus():
    """Plaintexts of the repo's own compress-test corpus (decoded with libbz2)."""
    global _suite
    if _suite is None:
        files = []
        for d in ('fuzz-collect', 'fuzz-divbwt', 'manual-compress'):
            files += sorted(glob.glob(os.path.join(core.REPO, 'tests', 'suite', d, '*.bz2')))
        _suite = files
    return _suite


def suite_plain(path):
    with open(path, 'rb') as f:
        return bz2.decompress(f.read())
