"""vcheck setup: prebuild every helper and lbzip2 variant (offline, from disk)."""
from . import core


def main():
    for n in ('refbz', 'runmon', 'ioshim', 'memshim', 'packmodel'):
        print('native', n, core.build_native(n))
    for t in ('minbzcat', 'bz01'):
        print('tool', t, core.build_repo_tool(t))
    for v in ('hook', 'plain', 'asan', 'tsan', 'msan'):
        print('lbzip2', v, core.build_lbzip2(v))
    return 0
