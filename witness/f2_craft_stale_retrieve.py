import sys; sys.path.insert(0,'/verif/lib')
from vf import core, ora, bzsynth as bs
import random
rnd=random.Random(3)
# inner (bogus) block header: 120 used byte values, alpha 122: 6 symbols of length 6, 116 of length 7,
# RUNA/RUNB/EOB all length 7
used=[16*g+2*k for g in range(16) if g!=9 for k in range(8)]
alpha=len(used)+2
lens=[7]*alpha
for i in range(2,8): lens[i]=6
assert bs.kraft(lens)==0
def tbits(l):
    cur=7; out=['00111']
    for x in l:
        if x==cur: out.append('10110' if cur==7 else '11100')
        elif x<cur: out.append('110'); cur-=1
        else: out.append('100'); cur+=1
    return ''.join(out)
inner=bs.Block(used,[], [lens,lens],[1,0]*9001)
inner.eob=False; inner.crc=0x5a5a5a5a; inner.orig=0x050504
inner.table_bits=[tbits(lens),tbits(lens)]
bw=bs.BW(); inner.write(bw)
while bw.n%8: bw.puts('1' if bw.n%2 else '0')
ib=bw.tobytes()
print('inner header bytes',len(ib),'has ff',b'\xff' in ib, 'zeros',ib.count(b'\0'), 'ones', ib.count(b'\1'))
fill=[0x40|(x<<2)|2 for x in (0b1011,0b1101,0b1110,0b0111)]
def filler(n): return [rnd.choice(fill) for _ in range(n)]
oused=[b for b in range(256) if b not in (7,11)]
syms=filler(60000)+list(ib)+filler(int(sys.argv[1]) if len(sys.argv)>1 else 700000)
ng=(len(syms)+1+49)//50
outer=bs.Block(oused,syms,[[8]*256,[8]*256],[0]*ng)
outer.orig=5
data=bs.build([bs.Stream(9,[outer])])
v,info,out=ora.refbz(data)
print(v,info['reason'],len(data),len(out))
open('/tmp/hb/craft.bz2','wb').write(data); open('/tmp/hb/craft.out','wb').write(out)
