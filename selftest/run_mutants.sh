#!/bin/bash
# run_mutants.sh [name-pattern]: run each own mutant against the checks expected to fire; append to RESULTS.txt
cd /verif/selftest
pat=${1:-.}
while read name checks; do
  echo "$name" | grep -qE "$pat" || continue
  res=$(/verif/bin/seedtest mutants/$name.diff $checks 2>&1 | grep -E "^== |key=" | cut -c1-200 | tr '\n' ' ')
  echo "$(date +%H:%M) $name => $res" | tee -a RESULTS.txt
done < mutants/INDEX
