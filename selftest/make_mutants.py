#!/usr/bin/python3
"""Generate my own single-edit mutants of /repo (as patch files) for the
"fires on" self-test of each check.  Usage: make_mutants.py OUTDIR
Each mutant: (name, check ids expected to fire, file, old, new)."""
import os, subprocess, sys
M = [
 ('c04-maxrun-258', 'C04', 'src/encode.c', '#define MAX_RUN_LENGTH (4+255)', '#define MAX_RUN_LENGTH (4+254)'),
 ('c04-no-lookahead-unget', 'C04 C01', 'src/encode.c', '''      if (likely(q <= qMax))
        goto state1;
''', '''      if (likely(q <= qMax + 1))
        goto state1;
'''),
 ('c02-dummy-table-incomplete', 'C02', 'src/encode.c', '        s->u.s.length[t][v] = cl0 + 1;', '        s->u.s.length[t][v] = cl0 + 2;'),
 ('c03-xread-short', 'C03', 'src/process.c', '''    VERIF_YIELD(VS_READ_POST, 0);
  }
  while (*vacant > 0);''', '''    VERIF_YIELD(VS_READ_POST, 0);
  }
  while (0);'''),
 ('c05-no-declared-size-check', 'C05 C07', 'src/expand.c', '  if (oblk->blk_sz > ord.hdr.bs100k * 100000u)', '  if (oblk->blk_sz > 9 * 100000u)'),
 ('c15-stream-crc-31bits', 'C15 C05 C07', 'src/parse.c', '      if (ps->stored_crc != ps->computed_crc)', '      if ((ps->stored_crc ^ ps->computed_crc) & 0x7fffffffu)'),
 ('c15-block-crc-parallel-only', 'C15', 'src/expand.c', '    if (oblk->status == OK && oblk->crc != ord.hdr.crc)', '    if (oblk->status == OK && oblk->crc != ord.hdr.crc && (num_worker == 1 || (oblk->crc ^ ord.hdr.crc) >> 8))'),
 ('c06-no-align-between-streams', 'C06 C09', 'src/parse.c', '      bits_align(bs);\n      ps->state = STREAM_MAGIC_1;', '      ps->state = STREAM_MAGIC_1;'),
 ('c11-transm-thresh-0', 'C11', 'src/compress.c', '#define TRANSM_THRESH 2', '#define TRANSM_THRESH 0'),
 ('c11-emit-thresh-0', 'C11', 'src/expand.c', '#define EMIT_THRESH 2u', '#define EMIT_THRESH 0u'),
 ('c12-eof-outside-lock', 'C12', 'src/process.c', '''  sched_lock();
  eof = 1;
  sched_unlock();''', '''  eof = 1;
  sched_lock();
  sched_unlock();'''),
 ('c12-outslots-unlocked', 'C12', 'src/compress.c', '''  free(buffer);

  sched_lock();
  ++out_slots;''', '''  free(buffer);

  ++out_slots;
  sched_lock();'''),
 ('c13-double-out-slots', 'C13', 'src/process.c', '    total_out_slots = 16u * num_worker;', '    total_out_slots = 40u * num_worker;'),
 ('c13-leak-out-buffer', 'C13', 'src/expand.c', '  free(oblk - 1);\n', '  if (oblk[-1].size < 100) free(oblk - 1);\n'),
 ('c14-dump-31', 'C14 C10', 'src/parse.c', '''      if (bits_need(bs, 32) == OK) {
        bits_dump(bs, 32);''', '''      if (bits_need(bs, 32) == OK) {
        bits_dump(bs, 31);'''),
 ('c16-remove-input-before-close', 'C16', 'src/main.c', '''            output_regf_uninit(ospec.fd, &instat);
            if (!keep) {
              input_oprnd_rm(operands);
            }''', '''            if (!keep) {
              input_oprnd_rm(operands);
            }
            output_regf_uninit(ospec.fd, &instat);'''),
 ('c16-no-cleanup-on-signal', 'C16', 'src/signals.c', '''#endif
    cleanup();
    terminate(sig);''', '''#endif
    terminate(sig);'''),
 ('c17-fchmod-user-only', 'C17', 'src/main.c', 'sbuf->st_mode & (S_IRWXU | S_IRWXG | S_IRWXO))) {', 'sbuf->st_mode & (S_IRWXU | S_IRWXG))) {'),
 ('c17-keep-skips-nlink-check-inverted', 'C17', 'src/main.c', 'if (OM_REGF == outmode && !keep && sbuf->st_nlink > (nlink_t) 1) {', 'if (OM_REGF == outmode && !keep && sbuf->st_nlink > (nlink_t) 2) {'),
 ('c18-crc-not-reset', 'C18', 'src/compress.c', '  assert(1 <= bs100k && bs100k <= 9);\n  combined_crc = 0;', '  assert(1 <= bs100k && bs100k <= 9);'),
 ('c19-header-not-replayed-short', 'C19', 'src/process.c', '      xwrite(&header, sizeof(header) - vacant);', '      if (vacant == 0) xwrite(&header, sizeof(header));'),
 ('c20-package-merge-strict', 'C20', 'src/encode.c', '      if (pkg_weight[depth - 1] <= curr_weight[depth]) {', '      if (pkg_weight[depth - 1] < curr_weight[depth]) {'),
 ('c21-efbig-diagnostic', 'C21', 'src/main.c', '    if (!bail || (EPIPE != x && EFBIG != x)) {  \\', '    if (!bail || (EPIPE != x)) {                \\'),
 ('c22-env-order', 'C22', 'src/main.c', 'static const char *const ev_name[] = { "LBZIP2", "BZIP2", "BZIP" };', 'static const char *const ev_name[] = { "BZIP", "BZIP2", "LBZIP2" };'),
 ('c22-bzcat-keeps-file-mode', 'C22', 'src/main.c', '''  else if (strcmp(pname, "bzcat") == 0 || strcmp(pname, "lbzcat") == 0) {
    outmode = OM_STDOUT;
    decompress = 1;''', '''  else if (strcmp(pname, "bzcat") == 0 || strcmp(pname, "lbzcat") == 0) {
    decompress = 1;'''),
 ('c08-selector-array-short', 'C08', 'src/encode.c', '      uint8_t selector[18000 + 1 + 1];', '      uint8_t selector[18000 + 1];'),
 ('c09-emit-state-lost', 'C09 C01', 'src/decode.c', '''    if (unlikely(!m--)) {
      ds->rle_state = 3;
      break;
    }
    s = (s << 8) ^ crc_table[(s >> 24) ^ (*b++ = c)];
    if (c != d)
      break;
    if (unlikely(!a--))
      return ERR_RUNLEN;
    c = p = t[p >> 8];
    /* fall-through */''', '''    if (unlikely(!m--)) {
      ds->rle_state = 2;
      break;
    }
    s = (s << 8) ^ crc_table[(s >> 24) ^ (*b++ = c)];
    if (c != d)
      break;
    if (unlikely(!a--))
      return ERR_RUNLEN;
    c = p = t[p >> 8];
    /* fall-through */'''),
 ('c10-bogus-accepted', 'C10', 'src/expand.c', '''    if (ublk->complete) {
      free(ublk);
    }
    else {
      ublk->complete = true;
      ublk->legitimate = false;
    }
  }

  if (!empty(unord_q) && pos_eq(peek(unord_q)->base, parser_bs.pos)) {''', '''    if (ublk->complete) {
      free(ublk);
    }
    else {
      ublk->complete = true;
      ublk->legitimate = true;
    }
  }

  if (!empty(unord_q) && pos_eq(peek(unord_q)->base, parser_bs.pos)) {'''),
 ('c07-eof-padding-check-off', 'C07 C05', 'src/expand.c', '    if (parser_bs.offset == tail_offs && parser_bs.live < 8 * eof_missing) {', '    if (0 && parser_bs.offset == tail_offs && parser_bs.live < 8 * eof_missing) {'),
]
out = sys.argv[1]
os.makedirs(out, exist_ok=True)
wt = '/tmp/mutgen.%d' % os.getpid()
subprocess.check_call(['git', '-C', '/repo', 'worktree', 'add', '-q', '--detach', wt, 'HEAD'])
try:
    index = []
    for name, checks, f, old, new in M:
        p = os.path.join(wt, f)
        s = open(p).read()
        if s.count(old) != 1:
            print('SKIP %s: pattern occurs %d times' % (name, s.count(old)))
            continue
        open(p, 'w').write(s.replace(old, new))
        d = subprocess.run(['git', '-C', wt, 'diff', '--', 'src'], stdout=subprocess.PIPE).stdout
        open(os.path.join(out, name + '.diff'), 'wb').write(d)
        subprocess.check_call(['git', '-C', wt, 'checkout', '-q', '--', '.'])
        index.append('%s %s' % (name, checks))
    open(os.path.join(out, 'INDEX'), 'w').write('\n'.join(index) + '\n')
    print('wrote', len(index), 'mutants')
finally:
    subprocess.call(['git', '-C', '/repo', 'worktree', 'remove', '--force', wt])
    subprocess.call(['git', '-C', '/repo', 'worktree', 'prune'])
